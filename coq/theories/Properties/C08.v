(* C08  A request that fails leaves no trace. *)
From Coq Require Import List Bool.
From Minidyn Require Import Base.Str Base.FMap Base.Outcome Model.Value Model.Key Model.Index Model.Table Model.Client.
From Minidyn Require Import Proofs.KV Proofs.ClientFacts Proofs.BatchAtomic.
Import ListNotations.

(* every single-request data operation whose result is not a success (any error class, documented or runtime panic)
   returns the client state unchanged: all tables, sorted keys, indexes, failure flag and registry *)
Theorem C08_fail_no_trace :
  forall lm lu sdk c o, single_data_op o = true -> res_ok (o_res (snd (step lm lu sdk c o))) = false -> fst (step lm lu sdk c o) = c.
Proof. exact fail_no_trace. Qed.

(* a write is all-or-nothing across the base table and all its indexes *)
Theorem C08_put_all_or_nothing :
  forall lm c t it cond names vals, is_ok (snd (t_put lm c t it cond names vals)) = false -> fst (t_put lm c t it cond names vals) = t.
Proof. exact put_fail_unchanged. Qed.

Theorem C08_update_all_or_nothing :
  forall lm lu c t k e cond names vals,
    is_ok (snd (t_update lm lu c t k e cond names vals)) = false -> fst (t_update lm lu c t k e cond names vals) = t.
Proof. exact update_fail_unchanged. Qed.

Theorem C08_delete_all_or_nothing :
  forall lm c t k cond names vals, is_ok (snd (t_delete lm c t k cond names vals)) = false -> fst (t_delete lm c t k cond names vals) = t.
Proof. exact delete_fail_unchanged. Qed.

(* a batch that is rejected (shape, size, unknown table, invalid key or index key) is rejected before anything is written *)
Theorem C08_rejected_batch_no_trace :
  forall lm sdk c reqs,
    c_failure c = None ->
    (negb (forallb wreq_ok (flat_map snd reqs)) || Nat.ltb batch_limit (List.length (flat_map snd reqs)) ||
     negb (match flat_map (prevalidate_table c) reqs with [] => true | _ => false end)) = true ->
    fst (batch_write lm sdk c reqs) = c /\ res_ok (o_res (snd (batch_write lm sdk c reqs))) = false.
Proof. exact batch_rejected_no_trace. Qed.

(* ... and so is EVERY batch that fails: in any client of any history, with no failure emulated, a BatchWriteItem that
   does not succeed has changed nothing - once the validation in front of the loop has passed no request can fail, so
   there is no failure after a write (table names: those the SDK v1 request validation admits) *)
Theorem C08_failed_batch_no_trace :
  forall lm lu sdk ops cn c reqs,
    lookup cn (fst (run lm lu sdk [] ops)) = Some c ->
    c_failure c = None -> (forall tn, In tn (keys reqs) -> v1_name_ok sdk tn = true) ->
    res_ok (o_res (snd (batch_write lm sdk c reqs))) = false -> fst (batch_write lm sdk c reqs) = c.
Proof. exact failed_batch_no_trace_reachable. Qed.

(* reads never modify anything *)
Theorem C08_reads_are_pure :
  forall lm lu sdk c o, read_op o = true -> fst (step lm lu sdk c o) = c.
Proof. exact read_pure. Qed.
