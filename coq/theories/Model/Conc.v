(* C11: the lock discipline of the clients (read from the sources into Gen/Locks.v) and what it guarantees. *)
From Coq Require Import List Bool Arith Lia.
From Coq Require Import Strings.Byte Strings.String.
From Minidyn Require Import Base.Str Gen.Locks.
Import ListNotations.

Definition find_method (tbl : list minfo) (n : str) : option minfo := find (fun m => str_eqb (m_name m) n) tbl.

(* does a call to one of these functions (possibly through helpers that do not lock) take the mutex?
   (a function that locks may call helpers before it does: m_pre; they count too) *)
Fixpoint reaches_lock (fuel : nat) (tbl : list minfo) (names : list str) : bool :=
  match fuel with
  | O => true        (* unknown: be conservative *)
  | S f =>
      existsb (fun n => match find_method tbl n with
                        | Some m => m_locks m || reaches_lock f tbl (m_pre m ++ m_calls m)
                        | None => false
                        end) names
  end.

(* is this function only ever executed by a thread that holds the mutex? It is private, nobody calls it before taking
   the lock, and each of its callers either took the lock before the call or is itself only executed under it *)
Fixpoint held (fuel : nat) (tbl : list minfo) (m : minfo) : bool :=
  match fuel with
  | O => false       (* unknown: be conservative *)
  | S f =>
      negb (m_public m) &&
      forallb (fun c => negb (mem_str (m_name m) (m_pre c)) &&
                        (if mem_str (m_name m) (m_calls c) then m_locks c || held f tbl c else true)) tbl
  end.

(* The discipline:
   1. a function that touches the shared fields of the client without taking the mutex itself is only ever executed
      by a thread that holds it (so the access is inside a critical section anyway);
   2. a function never calls, directly or through helpers, a function that takes the mutex while it holds it itself
      (sync.Mutex is not reentrant: that would be a self-deadlock). m_calls of a locking function are the calls it
      makes after it took the lock (the translator insists on a top-level Lock with a deferred Unlock, so that is
      "until it returns"). *)
Definition well_locked (tbl : list minfo) : bool :=
  forallb (fun m =>
    match m_unlocked m with
    | [] => true
    | _ => held 6 tbl m
    end &&
    (if m_locks m then negb (reaches_lock 6 tbl (m_calls m)) else true)) tbl.

(* ---------------- one critical section per call ----------------
   An upper bound on the number of critical sections that one call of a function enters, saturated at 2 ("several").
   A call that enters one critical section takes effect atomically at that section; a public method that could enter
   several (as BatchWriteItem did, one per request: fix aae4d34) is not atomic.
   The emulated-failure pre-check of the SDK v1 single-item methods ([failureErr] before the lock) is the one benign
   exception: it only reads, and the same field is read again under the lock (rechecks), so when the pre-check lets
   the call proceed its answer is not used, and when it does not, the call ends there: either way one section decides. *)
Definition sat2 (n : nat) : nat := if Nat.leb 2 n then 2 else n.

(* does a function, or a helper it calls while holding the lock, read the field under the lock? *)
Fixpoint reads_under_lock (fuel : nat) (tbl : list minfo) (field : str) (held_now : bool) (m : minfo) : bool :=
  match fuel with
  | O => false
  | S f =>
      (if held_now then mem_str field (m_unlocked m) else false) ||
      (if m_locks m then mem_str field (m_locked m) else false) ||
      (if held_now || m_locks m
       then existsb (fun n => match find_method tbl n with
                              | Some c => if m_locks c then false else reads_under_lock f tbl field true c
                              | None => false end) (m_calls m)
       else false)
  end.

Fixpoint sections (fuel : nat) (tbl : list minfo) (m : minfo) : nat :=
  match fuel with
  | O => 2
  | S f =>
      let of_callee (inloop : list str) (n : str) : nat :=
        match find_method tbl n with
        | Some c => let k := sections f tbl c in if mem_str n inloop then sat2 (2 * k) else k
        | None => 0
        end in
      if m_locks m then
        (* its own section, plus what it enters before it takes the lock (helpers called under the lock can not take
           it: well_locked) *)
        sat2 (1 + fold_right (fun n acc =>
                                if str_eqb n (bs "failureErr") && reads_under_lock 6 tbl (bs "forceFailureErr") false m
                                then acc else of_callee (m_loops m) n + acc) 0 (m_pre m))
      else sat2 (fold_right (fun n acc => of_callee (m_loops m) n + acc) 0 (m_calls m))
  end.

Definition one_section_per_call (tbl : list minfo) : bool :=
  forallb (fun m => negb (m_public m) || Nat.leb (sections 8 tbl m) 1) tbl.

(* ---------------- what mutual exclusion gives ---------------- *)
(* An execution is a sequence of steps of threads: acquire, an access to shared state, release. *)
Inductive stepk := Acq | Ev (e : nat) | Rel.
Definition tstep := (nat * stepk)%type.      (* thread id, step *)

Record cstate := { done : list (nat * list nat);      (* completed critical sections, in order of completion *)
                   cur : option (nat * list nat) }.   (* the holder of the mutex and what it did so far *)

(* the mutex semantics: Acq only when free, Ev/Rel only by the holder *)
Definition cstep (s : cstate) (x : tstep) : option cstate :=
  match snd x, cur s with
  | Acq, None => Some {| done := done s; cur := Some (fst x, []) |}
  | Ev e, Some (t, l) => if Nat.eqb t (fst x) then Some {| done := done s; cur := Some (t, l ++ [e]) |} else None
  | Rel, Some (t, l) => if Nat.eqb t (fst x) then Some {| done := done s ++ [(t, l)]; cur := None |} else None
  | _, _ => None
  end.

Fixpoint crun (s : cstate) (tr : list tstep) : option cstate :=
  match tr with
  | [] => Some s
  | x :: rest => match cstep s x with Some s' => crun s' rest | None => None end
  end.

Definition events (tr : list tstep) : list nat := flat_map (fun x => match snd x with Ev e => [e] | _ => [] end) tr.

Definition flat (s : cstate) : list nat :=
  flat_map snd (done s) ++ match cur s with Some (_, l) => l | None => [] end.
