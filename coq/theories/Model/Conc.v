(* C11: the lock discipline of the clients (read from the sources into Gen/Locks.v) and what it guarantees. *)
From Coq Require Import List Bool Arith Lia.
From Coq Require Import Strings.Byte Strings.String.
From Minidyn Require Import Base.Str Gen.Locks.
Import ListNotations.

Definition find_method (tbl : list minfo) (n : str) : option minfo := find (fun m => str_eqb (m_name m) n) tbl.

(* does a call to one of these functions (possibly through helpers that do not lock) take the mutex? *)
Fixpoint reaches_lock (fuel : nat) (tbl : list minfo) (names : list str) : bool :=
  match fuel with
  | O => true        (* unknown: be conservative *)
  | S f =>
      existsb (fun n => match find_method tbl n with
                        | Some m => m_locks m || reaches_lock f tbl (m_calls m)
                        | None => false
                        end) names
  end.

Definition calls (c m : minfo) : bool := mem_str (m_name m) (m_calls c).

(* The discipline:
   1. a function that touches the shared fields of the client without taking the mutex itself is private and every
      one of its callers holds the mutex (so the access is inside a critical section anyway);
   2. a function that holds the mutex never calls, directly or through helpers, a function that takes it
      (sync.Mutex is not reentrant: that would be a self-deadlock). *)
Definition well_locked (tbl : list minfo) : bool :=
  forallb (fun m =>
    match m_unlocked m with
    | [] => true
    | _ => negb (m_public m) && forallb (fun c => if calls c m then m_locks c else true) tbl
    end &&
    (if m_locks m then negb (reaches_lock 6 tbl (m_calls m)) else true)) tbl.

(* ---------------- what mutual exclusion gives ---------------- *)
(* An execution is a sequence of steps of threads: acquire, an access to shared state, release. *)
Inductive stepk := Acq | Ev (e : nat) | Rel.
Definition tstep := (nat * stepk)%type.      (* thread id, step *)

Record cstate := { done : list (nat * list nat);      (* completed critical sections, in order of completion *)
                   cur : option (nat * list nat) }.   (* the holder of the mutex and what it did so far *)

(* the mutex semantics: Acq only when free, Ev/Rel only by the holder *)
Definition cstep (s : cstate) (x : tstep) : option cstate :=
  match snd x, cur s with
  | Acq, None => Some {| done := done s; cur := Some (fst x, []) |}
  | Ev e, Some (t, l) => if Nat.eqb t (fst x) then Some {| done := done s; cur := Some (t, l ++ [e]) |} else None
  | Rel, Some (t, l) => if Nat.eqb t (fst x) then Some {| done := done s ++ [(t, l)]; cur := None |} else None
  | _, _ => None
  end.

Fixpoint crun (s : cstate) (tr : list tstep) : option cstate :=
  match tr with
  | [] => Some s
  | x :: rest => match cstep s x with Some s' => crun s' rest | None => None end
  end.

Definition events (tr : list tstep) : list nat := flat_map (fun x => match snd x with Ev e => [e] | _ => [] end) tr.

Definition flat (s : cstate) : list nat :=
  flat_map snd (done s) ++ match cur s with Some (_, l) => l | None => [] end.
