(* C11: the lock discipline of the clients (read from the sources into Gen/Locks.v) and what it guarantees. *)
From Coq Require Import List Bool Arith Lia.
From Coq Require Import Strings.Byte Strings.String.
From Minidyn Require Import Base.Str Gen.Locks.
Import ListNotations.

Definition find_method (tbl : list minfo) (n : str) : option minfo := find (fun m => str_eqb (m_name m) n) tbl.

(* does a call to one of these functions (possibly through helpers that do not lock) take the mutex?
   (a function that locks may call helpers before it does: m_pre; they count too) *)
Fixpoint reaches_lock (fuel : nat) (tbl : list minfo) (names : list str) : bool :=
  match fuel with
  | O => true        (* unknown: be conservative *)
  | S f =>
      existsb (fun n => match find_method tbl n with
                        | Some m => m_locks m || reaches_lock f tbl (m_pre m ++ m_calls m)
                        | None => false
                        end) names
  end.

(* is this function only ever executed by a thread that holds the mutex? It is private, nobody calls it before taking
   the lock, and each of its callers either took the lock before the call or is itself only executed under it *)
Fixpoint held (fuel : nat) (tbl : list minfo) (m : minfo) : bool :=
  match fuel with
  | O => false       (* unknown: be conservative *)
  | S f =>
      negb (m_public m) &&
      forallb (fun c => negb (mem_str (m_name m) (m_pre c)) &&
                        (if mem_str (m_name m) (m_calls c) then m_locks c || held f tbl c else true)) tbl
  end.

(* The discipline:
   1. a function that touches the shared fields of the client without taking the mutex itself is only ever executed
      by a thread that holds it (so the access is inside a critical section anyway);
   2. a function never calls, directly or through helpers, a function that takes the mutex while it holds it itself
      (sync.Mutex is not reentrant: that would be a self-deadlock). m_calls of a locking function are the calls it
      makes after it took the lock (the translator insists on a top-level Lock with a deferred Unlock, so that is
      "until it returns"). *)
Definition well_locked (tbl : list minfo) : bool :=
  forallb (fun m =>
    match m_unlocked m with
    | [] => true
    | _ => held 6 tbl m
    end &&
    (if m_locks m then negb (reaches_lock 6 tbl (m_calls m)) else true)) tbl.

(* ---------------- what mutual exclusion gives ---------------- *)
(* An execution is a sequence of steps of threads: acquire, an access to shared state, release. *)
Inductive stepk := Acq | Ev (e : nat) | Rel.
Definition tstep := (nat * stepk)%type.      (* thread id, step *)

Record cstate := { done : list (nat * list nat);      (* completed critical sections, in order of completion *)
                   cur : option (nat * list nat) }.   (* the holder of the mutex and what it did so far *)

(* the mutex semantics: Acq only when free, Ev/Rel only by the holder *)
Definition cstep (s : cstate) (x : tstep) : option cstate :=
  match snd x, cur s with
  | Acq, None => Some {| done := done s; cur := Some (fst x, []) |}
  | Ev e, Some (t, l) => if Nat.eqb t (fst x) then Some {| done := done s; cur := Some (t, l ++ [e]) |} else None
  | Rel, Some (t, l) => if Nat.eqb t (fst x) then Some {| done := done s ++ [(t, l)]; cur := None |} else None
  | _, _ => None
  end.

Fixpoint crun (s : cstate) (tr : list tstep) : option cstate :=
  match tr with
  | [] => Some s
  | x :: rest => match cstep s x with Some s' => crun s' rest | None => None end
  end.

Definition events (tr : list tstep) : list nat := flat_map (fun x => match snd x with Ev e => [e] | _ => [] end) tr.

Definition flat (s : cstate) : list nat :=
  flat_map snd (done s) ++ match cur s with Some (_, l) => l | None => [] end.
