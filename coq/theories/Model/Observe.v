(* The executable system (both clients with the language interpreter plugged in) and the comparison of
   observations used by the correspondence check. *)
From Coq Require Import List Bool Arith.
From Coq Require Import Strings.Byte Strings.String.
From Minidyn Require Import Base.Str Base.FMap Base.Outcome Model.Value Model.Key Model.Index Model.Table
  Model.Client Model.Language.
Import ListNotations.

Definition sys_step (s : sdk) := step lang_match lang_update s.
Definition sys_run (s : sdk) := run lang_match lang_update s.

(* ---- canonical observations ---- *)
Definition canon_wreq (r : wreq) : wreq :=
  match r with
  | WPut i => WPut (canon_item i)
  | WDelete k => WDelete (canon_item k)
  | WBoth i k => WBoth (canon_item i) (canon_item k)
  | WNeither => WNeither
  end.

Definition canon_payload (p : payload) : payload :=
  match p with
  | PNone => PNone
  | PItem i => PItem (canon_item i)
  | PCondItem i => PCondItem (canon_item i)
  | PItems l c k => PItems (map canon_item l) c (canon_item k)
  | PDesc d => PDesc d
  | PBatchWrite u => PBatchWrite (map (fun tr => (fst tr, map canon_wreq (snd tr))) u)
  | PAlt l => PAlt l
  | PBatchGet r u => PBatchGet (map (fun tr => (fst tr, map canon_item (snd tr))) r)
                               (map (fun tr => (fst tr, map canon_item (snd tr))) u)
  end.

Definition res_eqb (a b : res) : bool :=
  match a, b with
  | ROk, ROk | RFuel, RFuel => true
  | RErr x, RErr y => errclass_eqb x y
  | RPanic x, RPanic y => panic_eqb x y
  | _, _ => false
  end.

Definition wreq_eqb (a b : wreq) : bool :=
  match a, b with
  | WPut x, WPut y | WDelete x, WDelete y => item_eqb x y
  | WBoth x1 x2, WBoth y1 y2 => item_eqb x1 y1 && item_eqb x2 y2
  | WNeither, WNeither => true
  | _, _ => false
  end.

Definition schema_eqb (a b : list (str * str)) : bool :=
  list_eqb (fun x y => str_eqb (fst x) (fst y) && str_eqb (snd x) (snd y)) a b.

Definition ixdesc_eqb (a b : str * nat * list (str * str)) : bool :=
  str_eqb (fst (fst a)) (fst (fst b)) && Nat.eqb (snd (fst a)) (snd (fst b)) && schema_eqb (snd a) (snd b).

Definition desc_eqb (a b : desc) : bool :=
  str_eqb (d_name a) (d_name b) && Nat.eqb (d_count a) (d_count b) && schema_eqb (d_schema a) (d_schema b) &&
  list_eqb ixdesc_eqb (d_gsi a) (d_gsi b) && list_eqb ixdesc_eqb (d_lsi a) (d_lsi b).

Definition tmap_eqb {A} (eqb : A -> A -> bool) (a b : fmap (list A)) : bool :=
  list_eqb (fun x y => str_eqb (fst x) (fst y) && list_eqb eqb (snd x) (snd y)) a b.

Definition payload_eqb (a b : payload) : bool :=
  match a, b with
  | PNone, PNone => true
  | PItem x, PItem y | PCondItem x, PCondItem y => item_eqb x y
  | PItems l c k, PItems l' c' k' => list_eqb item_eqb l l' && Nat.eqb c c' && item_eqb k k'
  | PDesc x, PDesc y => desc_eqb x y
  | PBatchWrite x, PBatchWrite y => tmap_eqb wreq_eqb x y
  | PBatchGet r u, PBatchGet r' u' => tmap_eqb item_eqb r r' && tmap_eqb item_eqb u u'
  | _, _ => false
  end.

(* a: the model's observation, b: the implementation's *)
Definition obs_eqb (a b : obs) : bool :=
  match o_pay a with
  | PAlt errs =>
      match o_res b, o_pay b with
      | RErr e, PNone => existsb (errclass_eqb e) errs
      | _, _ => false
      end
  | _ =>
      res_eqb (o_res a) (o_res b) &&
      payload_eqb (canon_payload (o_pay a)) (canon_payload (o_pay b)) &&
      list_eqb Nat.eqb (o_fired a) (o_fired b)
  end.

(* ---- abstracted internal state, compared with the implementation's dump after every step ---- *)
Record abs_table := {
  a_items : list item;                     (* stored items in SortedKeys order *)
  a_indexes : fmap (list item)             (* per index: the indexed items in (index key, primary key) order *)
}.

Definition abs_of_table (t : table) : abs_table :=
  {| a_items := map (fun k => canon_item (get_item t k)) (t_sorted t);
     a_indexes := map (fun ni => (fst ni, map (fun r => canon_item (get_item t (fst r))) (sorted_refs (snd ni) true)))
                      (t_indexes t) |}.

Definition abs_of_client (c : client) : fmap abs_table := map (fun nt => (fst nt, abs_of_table (snd nt))) (c_tables c).

Definition citem_eqb (a b : item) : bool := item_eqb (canon_item a) (canon_item b).

Definition abs_table_eqb (a b : abs_table) : bool :=
  list_eqb citem_eqb (a_items a) (a_items b) && tmap_eqb citem_eqb (a_indexes a) (a_indexes b).

Definition abs_eqb (a b : fmap abs_table) : bool :=
  list_eqb (fun x y => str_eqb (fst x) (fst y) && abs_table_eqb (snd x) (snd y)) a b.

(* structural invariants of the model state (the same predicates are evaluated on the implementation's dump) *)
Fixpoint strictly_sorted (l : list str) : bool :=
  match l with
  | a :: (b :: _) as t => str_ltb a b && strictly_sorted t
  | _ => true
  end.
Fixpoint weakly_sorted (l : list str) : bool :=
  match l with
  | a :: (b :: _) as t => str_leb a b && weakly_sorted t
  | _ => true
  end.

Definition table_inv_b (t : table) : bool :=
  strictly_sorted (t_sorted t) && list_eqb str_eqb (t_sorted t) (keys (t_data t)) &&
  forallb (fun ni =>
    let ix := snd ni in
    weakly_sorted (ix_sorted ix) &&
    list_eqb str_eqb (ix_sorted ix) (sort_strings (map snd (ix_refs ix))) &&
    forallb (fun r => mem (fst r) (t_data t)) (ix_refs ix)) (t_indexes t).

(* ---- one correspondence case: a script and what the implementation was observed to do ---- *)
(* which components of a step are compared (the projection a property's check looks at) *)
Record view := { v_res : bool; v_pay : bool; v_fired : bool; v_state : bool; v_inv : bool }.
Definition full_view : view := {| v_res := true; v_pay := true; v_fired := true; v_state := true; v_inv := true |}.

Record expected := { x_obs : obs; x_state : option (fmap abs_table); x_view : view }.

Definition step_agrees (c : client) (ob : obs) (x : expected) : bool * bool * bool :=
  let v := x_view x in
  ((if v_res v && v_pay v && v_fired v then obs_eqb ob (x_obs x)
    else (if v_res v then (match o_pay ob with
                           | PAlt errs => match o_res (x_obs x) with RErr e => existsb (errclass_eqb e) errs | _ => false end
                           | _ => res_eqb (o_res ob) (o_res (x_obs x))
                           end) else true) &&
         (if v_pay v then (match o_pay ob with PAlt _ => true | p => payload_eqb (canon_payload p) (canon_payload (o_pay (x_obs x))) end) else true) &&
         (if v_fired v then list_eqb Nat.eqb (o_fired ob) (o_fired (x_obs x)) else true)),
   (if v_state v then match x_state x with Some st => abs_eqb (abs_of_client c) st | None => true end else true),
   (if v_inv v then forallb (fun nt => table_inv_b (snd nt)) (c_tables c) else true)).

Fixpoint check_script (s : sdk) (w : world) (i : nat) (ops : list (str * op)) (exp : list expected) : option nat :=
  match ops, exp with
  | [], [] => None
  | o :: ops', x :: exp' =>
      let '(w', ob) := wstep lang_match lang_update s w o in
      let c := match lookup (fst o) w' with Some c => c | None => new_client end in
      match step_agrees c ob x with
      | (true, true, true) => check_script s w' (S i) ops' exp'
      | _ => Some i
      end
  | _, _ => Some i
  end.

(* diagnostics for one step: (observation equal, abstract state equal, invariants hold) *)
Definition diag_step (s : sdk) (w : world) (o : str * op) (x : expected) : bool * bool * bool :=
  let '(w', ob) := wstep lang_match lang_update s w o in
  let c := match lookup (fst o) w' with Some c => c | None => new_client end in
  step_agrees c ob x.

(* indices (case, step) of the first mismatch of every failing case *)
Definition mismatches (s : sdk) (cases : list (list (str * op) * list expected)) : list (nat * nat) :=
  let fix go (n : nat) (cs : list (list (str * op) * list expected)) : list (nat * nat) :=
    match cs with
    | [] => []
    | c :: rest => match check_script s [] 0 (fst c) (snd c) with
                   | Some i => (n, i) :: go (S n) rest
                   | None => go (S n) rest
                   end
    end in
  go 0 cases.
