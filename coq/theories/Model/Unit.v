(* Unit-level correspondence cases: lexer, parser, Language.Match / Update, number round trip. *)
From Coq Require Import List Bool Arith.
From Coq Require Import Strings.Byte Strings.String.
From Minidyn Require Import Base.Str Base.FMap Base.Outcome Base.F64 Model.Value Model.Token Gen.Tables Model.Lexer Model.Parser
  Model.Language Model.Observe.
Import ListNotations.

Inductive ures :=
| UOkB (b : bool)            (* Match verdict *)
| UOkI (i : item)            (* item after Update *)
| UErrC (e : errclass)
| UPanicC.

Inductive ucase :=
| ULex (text : str) (toks : list (tt * str))
| UParse (upd : bool) (text : str) (nerrs : nat) (ast : option str)
| UMatch (expr : str) (it vals : item) (names : fmap str) (r : ures)
| UUpdate (expr : str) (it vals : item) (names : fmap str) (r : ures)
| UFloat (text : str) (r : option str).

Definition tok_eqb (a : token) (b : tt * str) : bool := tt_beq (ty a) (fst b) && str_eqb (lit a) (snd b).

Definition ucheck (u : ucase) : bool :=
  match u with
  | ULex text toks => list_eqb (fun a b => tt_beq (fst a) (fst b) && str_eqb (snd a) (snd b))
                        (map (fun t => (ty t, lit t)) (lex_all (S (List.length text)) text)) toks
  | UParse upd text nerrs ast =>
      match (if upd then parse_upd text else parse_cond text) with
      | None => false
      | Some (e, n) =>
          Nat.eqb n nerrs &&
          match ast with
          | Some a => if Nat.eqb n 0 then str_eqb (match e with ENil => [] | _ => show e end) a else true
          | None => true
          end
      end
  | UMatch expr it vals names r =>
      match lang_match expr it vals names, r with
      | Ok b, UOkB b' => Bool.eqb b b'
      | Err e, UErrC e' => errclass_eqb e e'
      | Panic _, UPanicC => true
      | _, _ => false
      end
  | UUpdate expr it vals names r =>
      match lang_update expr it vals names, r with
      | Ok i, UOkI i' => citem_eqb i i'
      | Err e, UErrC e' => errclass_eqb e e'
      | Panic _, UPanicC => true
      | _, _ => false
      end
  | UFloat text r =>
      match renumber text, r with
      | Some a, Some b => str_eqb a b
      | None, None => true
      | _, _ => false
      end
  end.

Definition umismatches (cases : list ucase) : list nat :=
  let fix go (n : nat) (cs : list ucase) : list nat :=
    match cs with
    | [] => []
    | c :: rest => if ucheck c then go (S n) rest else n :: go (S n) rest
    end in
  go 0 cases.
