(* interpreter/language/evaluator.go (EvalUpdate and the four actions), environment.go (Set, Remove,
   Compact, Apply). Value semantics: since SET stores a copy of the value it assigns, two names of the
   environment never share a mutable object as long as no attribute is targeted twice by ADD on a missing
   attribute (DESIGN: envelope of C07); in-place mutation is modelled by writing the new value back. *)
From Coq Require Import List Bool NArith ZArith Arith.
From Coq Require Import Strings.Byte Strings.String Floats.SpecFloat.
From Minidyn Require Import Base.Str Base.FMap Base.F64 Model.Value Model.Token Gen.Tables Model.Lexer Model.Parser Model.Object Model.Eval.
Import ListNotations.

(* copyObject: deep copy; removed list elements are not copied *)
Fixpoint copy_obj (o : obj) : obj :=
  match o with
  | VList l => VList (flat_map (fun x => match x with Some y => [Some (copy_obj y)] | None => [] end) l)
  | VMap m => VMap (map (fun kv => (fst kv, copy_obj (snd kv))) m)
  | _ => o
  end.

(* List.Compact on every list (all removed elements live in lists that were marked to compact) *)
Fixpoint compact_obj (o : obj) : obj :=
  match o with
  | VList l => VList (flat_map (fun x => match x with Some y => [Some (compact_obj y)] | None => [] end) l)
  | VMap m => VMap (map (fun kv => (fst kv, compact_obj (snd kv))) m)
  | _ => o
  end.

Fixpoint replace_nth {A} (n : nat) (x : A) (l : list A) : list A :=
  match l, n with
  | [], _ => []
  | _ :: t, O => x :: t
  | y :: t, S n' => y :: replace_nth n' x t
  end.

(* indexAccessor.Set; None = error object *)
Definition acc_set (a : accessor) (container v : obj) : option obj :=
  match container, a with
  | VList l, AccList pos =>
      if (pos <? 0)%Z then None     (* an error object (a runtime panic before fix 5fccea2) *)
      else if Nat.ltb (Z.to_nat pos) (List.length l) then Some (VList (replace_nth (Z.to_nat pos) (Some v) l))
      else Some (VList (l ++ [Some v]))
  | VMap m, AccMap k => Some (VMap (insert k v m))
  | VMap _, AccList _ => Some container
  | _, _ => None
  end.

(* indexAccessor.Remove *)
Definition acc_remove (a : accessor) (container : obj) : option obj :=
  match container, a with
  | VList l, AccList pos =>
      if (pos <? 0)%Z then None
      else if Nat.ltb (Z.to_nat pos) (List.length l) then Some (VList (replace_nth (Z.to_nat pos) None l))
      else Some container
  | VMap m, AccMap k => Some (VMap (remove k m))
  | VMap _, AccList _ => Some container
  | _, _ => None
  end.

(* put a modified child back where acc_get found it *)
Definition acc_put_back (a : accessor) (container child : obj) : obj :=
  match container, a with
  | VList l, AccList pos => VList (replace_nth (Z.to_nat pos) (Some child) l)
  | VMap m, AccMap k => VMap (insert k child m)
  | _, _ => container
  end.

(* apply [last] at the end of the path (innermost accessor first) *)
Fixpoint modify_path (last : accessor -> obj -> option obj) (o : obj) (path : list accessor) : option obj :=
  match path with
  | [] => None
  | [a] => last a o
  | a :: rest =>
      match acc_get a o with
      | EErr => None
      | EVal child =>
          match o, a with
          | VList l, AccList pos =>
              (* a removed or missing element reads as UNDEFINED: the final step fails on it *)
              match (if (pos <? 0)%Z then None else nth_error l (Z.to_nat pos)) with
              | Some (Some _) => option_map (acc_put_back a o) (modify_path last child rest)
              | _ => None
              end
          | VMap m, AccMap k =>
              match lookup k m with
              | Some _ => option_map (acc_put_back a o) (modify_path last child rest)
              | None => None
              end
          | _, _ => None
          end
      end
  end.

Definition resolve (e : env) (name : str) : str :=
  match lookup name (aliases e) with Some a => a | None => name end.

Definition env_set (e : env) (name : str) (v : obj) : env :=
  {| store := insert (resolve e name) v (store e); aliases := aliases e |}.

Definition env_remove (e : env) (name : str) : env :=
  {| store := remove (resolve e name) (store e); aliases := aliases e |}.

(* the base identifier of an index expression *)
Fixpoint base_ident (x : expr) : option token :=
  match x with EIdent t => Some t | EIndex _ l _ => base_ident l | _ => None end.

(* ---- EvalUpdate on right-hand sides ---- *)
Definition call_upd_function (impl : str) (args : list obj) : eres :=
  match args with
  | [a; b] =>
      if str_eqb impl (bs "ifNotExists") then (if is_undefined a then EVal b else EVal a)
      else if str_eqb impl (bs "listAppend") then
        match a, b with VList x, VList y => EVal (VList (x ++ y)) | _, _ => EErr end
      else EErr
  | _ => EErr
  end.

Fixpoint eval_upd (e : env) (x : expr) : eres :=
  match x with
  | EIdent t => eval_ident e t true
  | EIndex _ _ _ => eval_index e x
  | EInfix t l r =>
      ebind (eval_upd e l) (fun lo => ebind (eval_upd e r) (fun ro =>
        match lo, ro with
        | VNum a, VNum b =>
            match ty t with
            | PLUS => EVal (VNum (f64_add a b))
            | MINUS => EVal (VNum (f64_sub a b))
            | _ => EErr
            end
        | _, _ => EErr
        end))
  | ECall _ f args =>
      match f with
      | EIdent ft =>
          match assoc (lit ft) functions with
          | None => EErr
          | Some (for_update, arity, impl) =>
              if negb for_update then EErr else
              let go := (fix go (rs : list expr) (acc : list obj) : eres :=
                 match rs with
                 | [] => if Nat.eqb (List.length acc) arity then call_upd_function impl acc else EErr
                 | y :: rest => ebind (eval_upd e y) (fun o => go rest (acc ++ [o]))
                 end) in
              match args with Some l => go l [] | None => go [] [] end
          end
      | _ => EErr
      end
  | _ => EErr
  end.

(* AppendableObject.Add *)
Definition obj_add (o v : obj) : option obj :=
  match o with
  | VNum a => match v with VNum b => Some (VNum (f64_add a b)) | _ => None end
  | VList l => match v with VList l2 => Some (VList (l ++ l2)) | _ => Some (VList (l ++ [Some v])) end
  | VSS l => match v with
             | VSS xs => Some (VSS (fold_left (fun acc x => add_str x acc) xs l))
             | VStr x => Some (VSS (add_str x l))
             | _ => None
             end
  | VBS l => match v with
             | VBS xs => Some (VBS (fold_left (fun acc x => add_bin x acc) xs l))
             | VBin x => Some (VBS (add_bin x l))
             | _ => None
             end
  | VNS l => match v with
             | VNS xs => Some (VNS (fold_left (fun acc x => add_f64 x acc) xs l))
             | VNum x => Some (VNS (add_f64 x l))
             | _ => None
             end
  | _ => None
  end.

(* DetachableObject.Delete *)
Definition obj_delete (o v : obj) : option obj :=
  match o with
  | VSS l => match v with
             | VSS xs => Some (VSS (fold_left (fun acc x => remove_str x acc) xs l))
             | VStr x => Some (VSS (remove_str x l))
             | _ => None
             end
  | VBS l => match v with
             | VBS xs => Some (VBS (filter (fun y => negb (mem_str y xs)) l))
             | VBin x => Some (VBS (remove_str x l))
             | _ => None
             end
  | VNS l => match v with
             | VNS xs => Some (VNS (fold_left (fun acc x => remove_f64 x acc) xs l))
             | VNum x => Some (VNS (remove_f64 x l))
             | _ => None
             end
  | _ => None
  end.

(* evalAction: the new environment, or None for the error object *)
Definition is_empty_set (o : obj) : bool :=
  match o with VSS [] | VNS [] | VBS [] => true | _ => false end.

Definition eval_action (e : env) (a : expr) : option env :=
  match a with
  | EAction t l r =>
      match ty t with
      | SET =>
          match eval_upd e r with
          | EErr => None
          | EVal v0 =>
              let v := copy_obj v0 in
              match l with
              | EIdent id => match eval_ident e id true with EErr => None | EVal _ => Some (env_set e (lit id) v) end
              | EIndex _ _ _ =>
                  match eval_index_positions e l, base_ident l with
                  | Some (accs, o), Some b =>
                      match modify_path (fun a c => acc_set a c v) o (rev accs) with
                      | Some o' => Some (env_set e (lit b) o')
                      | None => None
                      end
                  | _, _ => None
                  end
              | _ => None
              end
          end
      | ADD =>
          match eval_upd e r with
          | EErr => None
          | EVal v =>
              match l with
              | EIdent id =>
                  match eval_ident e id true with
                  | EErr => None
                  | EVal o => if is_undefined o then Some (env_set e (lit id) v)
                              else option_map (env_set e (lit id)) (obj_add o v)
                  end
              | _ => Some e
              end
          end
      | DELETE =>
          match eval_upd e r with
          | EErr => None
          | EVal v =>
              match l with
              | EIdent id =>
                  match eval_ident e id true with
                  | EErr => None
                  | EVal o => if is_undefined o then Some e
                              else option_map (fun o' => if is_empty_set o' then env_remove e (lit id)   (* no empty sets (fix 4a6c359) *)
                                                         else env_set e (lit id) o') (obj_delete o v)
                  end
              | _ => Some e
              end
          end
      | REMOVE =>
          match l with
          | EIdent id => match eval_ident e id true with EErr => None | EVal _ => Some (env_remove e (lit id)) end
          | EIndex _ _ _ =>
              match eval_index_positions e l, base_ident l with
              | Some (accs, o), Some b =>
                  match modify_path acc_remove o (rev accs) with
                  | Some o' => Some (env_set e (lit b) o')
                  | None => None
                  end
              | _, _ => None
              end
          | _ => None
          end
      | _ => None
      end
  | _ => None
  end.

Fixpoint eval_actions (e : env) (acts : list expr) : option env :=
  match acts with
  | [] => Some e
  | a :: rest => match eval_action e a with Some e' => eval_actions e' rest | None => None end
  end.

(* EvalUpdate on the statement + Compact *)
Definition eval_update_stmt (e : env) (x : expr) : option env :=
  match x with
  | EUpdate _ (Some ((_ :: _) as acts)) =>
      option_map (fun e' => {| store := map (fun kv => (fst kv, compact_obj (snd kv))) (store e'); aliases := aliases e' |})
                 (eval_actions e acts)
  | _ => None
  end.
