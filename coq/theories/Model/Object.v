(* interpreter/language/object.go, mapper.go: evaluator objects and the conversions from and to
   attribute values. Numbers are float64 (Base/F64.v). Sets: Go maps keyed by string / float64 are
   kept as duplicate-free lists (sorted for strings; in first-seen order for floats, whose order is
   never observable after canonicalisation). *)
From Coq Require Import List Bool NArith ZArith.
From Coq Require Import Strings.Byte Strings.String Floats.SpecFloat.
From Minidyn Require Import Base.Str Base.FMap Base.F64 Model.Value.
Import ListNotations.

Inductive obj :=
| VNum (f : f64)
| VStr (s : str)
| VBin (b : str)
| VBool (b : bool)
| VNull (undefined : bool)         (* Null{IsUndefined}: true = missing attribute, false = a stored NULL *)
| VList (l : list (option obj))    (* None = element removed, list not compacted yet *)
| VMap (m : list (str * obj))      (* sorted by name *)
| VSS (l : list str)
| VNS (l : list f64)
| VBS (l : list str).

Definition UNDEFINED := VNull true.

Inductive otype := TB | TBS | TBOOL | TL | TM | TNULL | TN | TNS | TSS | TS.

Definition otype_eqb (a b : otype) : bool :=
  match a, b with
  | TB, TB | TBS, TBS | TBOOL, TBOOL | TL, TL | TM, TM | TNULL, TNULL | TN, TN | TNS, TNS | TSS, TSS | TS, TS => true
  | _, _ => false
  end.

Definition type_of (o : obj) : otype :=
  match o with
  | VNum _ => TN | VStr _ => TS | VBin _ => TB | VBool _ => TBOOL | VNull _ => TNULL
  | VList _ => TL | VMap _ => TM | VSS _ => TSS | VNS _ => TNS | VBS _ => TBS
  end.

Definition otype_name (t : otype) : str :=
  match t with
  | TB => bs "B" | TBS => bs "BS" | TBOOL => bs "BOOL" | TL => bs "L" | TM => bs "M" | TNULL => bs "NULL"
  | TN => bs "N" | TNS => bs "NS" | TSS => bs "SS" | TS => bs "S"
  end.

Definition is_undefined (o : obj) : bool := match o with VNull true => true | _ => false end.

(* ---- sets ---- *)
Fixpoint add_str (x : str) (l : list str) : list str :=     (* sorted insert without duplicates *)
  match l with
  | [] => [x]
  | y :: t => match str_compare x y with Lt => x :: l | Eq => l | Gt => y :: add_str x t end
  end.
Definition remove_str (x : str) (l : list str) : list str := filter (fun y => negb (str_eqb x y)) l.

Definition mem_f64 (x : f64) (l : list f64) : bool := existsb (f64_eqb x) l.
Definition add_f64 (x : f64) (l : list f64) : list f64 := if mem_f64 x l then l else l ++ [x].
Definition remove_f64 (x : f64) (l : list f64) : list f64 := filter (fun y => negb (f64_eqb x y)) l.

Definition add_bin (x : str) (l : list str) : list str := if mem_str x l then l else l ++ [x].

(* ---- MapToObject ---- *)
Fixpoint map_opt {A B} (f : A -> option B) (l : list A) : option (list B) :=
  match l with
  | [] => Some []
  | x :: t => match f x, map_opt f t with Some y, Some r => Some (y :: r) | _, _ => None end
  end.

(* None = error (unparsable number) -> ErrUnsupportedFeature *)
Fixpoint to_obj (v : av) : option obj :=
  match v with
  | ABOOL b => Some (VBool b)
  | AN s => option_map VNum (parse_float s)
  | AS s => Some (VStr s)
  | ANULL => Some (VNull false)
  | AB b => Some (VBin b)
  | AM m =>
      option_map VMap
        ((fix go (m : list (str * av)) : option (list (str * obj)) :=
            match m with
            | [] => Some []
            | (k, x) :: t => match to_obj x, go t with Some y, Some r => Some ((k, y) :: r) | _, _ => None end
            end) m)
  | AL l =>
      option_map VList
        ((fix go (l : list av) : option (list (option obj)) :=
            match l with
            | [] => Some []
            | x :: t => match to_obj x, go t with Some y, Some r => Some (Some y :: r) | _, _ => None end
            end) l)
  | ASS l => Some (VSS (fold_left (fun acc x => add_str x acc) l []))
  | ABS l => Some (VBS (fold_left (fun acc x => add_bin x acc) l []))
  | ANS l => option_map (fun fs => VNS (fold_left (fun acc x => add_f64 x acc) fs [])) (map_opt parse_float l)
  end.

(* ---- ToDynamoDB ---- *)
Fixpoint of_obj (o : obj) : av :=
  match o with
  | VNum f => AN (format_float f)
  | VStr s => AS s
  | VBin b => AB b
  | VBool b => ABOOL b
  | VNull _ => ANULL
  | VList l => AL (flat_map (fun x => match x with Some y => [of_obj y] | None => [] end) l)
  | VMap m => AM (map (fun kv => (fst kv, of_obj (snd kv))) m)
  | VSS l => ASS l
  | VNS l => ANS (map format_float l)
  | VBS l => ABS l
  end.

(* reflect.DeepEqual on two objects of the same type (equalObject) *)
Fixpoint obj_eqb (a b : obj) : bool :=
  match a, b with
  | VNum x, VNum y => f64_eqb x y
  | VStr x, VStr y | VBin x, VBin y => str_eqb x y
  | VBool x, VBool y => Bool.eqb x y
  | VNull x, VNull y => Bool.eqb x y
  | VList x, VList y =>
      (fix go (x y : list (option obj)) : bool :=
         match x, y with
         | [], [] => true
         | Some u :: x', Some v :: y' => obj_eqb u v && go x' y'
         | None :: x', None :: y' => go x' y'
         | _, _ => false
         end) x y
  | VMap x, VMap y =>
      (fix go (x y : list (str * obj)) : bool :=
         match x, y with
         | [], [] => true
         | (k, u) :: x', (k', v) :: y' => str_eqb k k' && obj_eqb u v && go x' y'
         | _, _ => false
         end) x y
  | VSS x, VSS y => list_eqb str_eqb x y
  | VNS x, VNS y => Nat.eqb (List.length x) (List.length y) && forallb (fun e => mem_f64 e y) x
  | VBS x, VBS y => Nat.eqb (List.length x) (List.length y) && forallb (fun e => mem_str e x) y   (* as sets (fix 54c4bb5) *)
  | _, _ => false
  end.

Definition equal_object (a b : obj) : bool := otype_eqb (type_of a) (type_of b) && obj_eqb a b.
