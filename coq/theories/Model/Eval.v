(* interpreter/language/evaluator.go, functions.go, environment.go: evaluation of condition expressions.
   An evaluation yields a value or the error object (messages are not modelled: every error object makes
   Language.Match fail with ErrSyntaxError). *)
From Coq Require Import List Bool NArith ZArith Arith.
From Coq Require Import Strings.Byte Strings.String Floats.SpecFloat.
From Minidyn Require Import Base.Str Base.FMap Base.F64 Model.Value Model.Token Gen.Tables Model.Lexer Model.Parser Model.Object.
Import ListNotations.

Record env := { store : fmap obj; aliases : fmap str }.

Inductive eres := EVal (o : obj) | EErr.

Definition ebind (r : eres) (f : obj -> eres) : eres := match r with EVal o => f o | EErr => EErr end.

Definition TRUE := EVal (VBool true).
Definition FALSE := EVal (VBool false).
Definition of_bool (b : bool) : eres := EVal (VBool b).

(* strings.ToUpper on the identifier characters *)
Definition upper_byte (c : byte) : byte :=
  let n := b2n c in
  if (N.leb 97 n && N.leb n 122)%N then match Byte.of_N (n - 32) with Some b => b | None => c end else c.
Definition to_upper (s : str) : str := map upper_byte s.

Definition is_reserved (s : str) : bool := mem_str (to_upper s) reserved_words.

(* Environment.Get, on alias values that are plain attribute names (see DESIGN: domain of fidelity) *)
Definition env_get (e : env) (name : str) : obj :=
  let n := match lookup name (aliases e) with Some a => a | None => name end in
  match lookup n (store e) with Some o => o | None => UNDEFINED end.

(* evalIdentifier *)
Definition eval_ident (e : env) (t : token) (toplevel : bool) : eres :=
  if toplevel && is_reserved (lit t) then EErr else EVal (env_get e (lit t)).

Definition is_comparable (o : obj) : bool :=
  mem_str (otype_name (type_of o)) comparable_types || is_undefined o.

(* evalNullInfixExpression *)
Definition eval_null_infix (op : tt) (l r : obj) : eres :=
  match op with
  | EQ => of_bool (negb (is_undefined l || is_undefined r))
  | NotEQ => of_bool (is_undefined l || is_undefined r)
  | _ => FALSE
  end.

Definition cmp_op (op : tt) (c : comparison) : eres :=
  match op with
  | LT => of_bool (match c with Lt => true | _ => false end)
  | LTE => of_bool (match c with Gt => false | _ => true end)
  | GT => of_bool (match c with Gt => true | _ => false end)
  | GTE => of_bool (match c with Lt => false | _ => true end)
  | EQ => of_bool (match c with Eq => true | _ => false end)
  | NotEQ => of_bool (match c with Eq => false | _ => true end)
  | _ => EErr
  end.

(* float comparisons follow IEEE (a nan compares false with everything) *)
Definition num_op (op : tt) (a b : f64) : eres :=
  match op with
  | LT => of_bool (f64_ltb a b)
  | LTE => of_bool (f64_leb a b)
  | GT => of_bool (f64_ltb b a)
  | GTE => of_bool (f64_leb b a)
  | EQ => of_bool (f64_eqb a b)
  | NotEQ => of_bool (negb (f64_eqb a b))
  | _ => EErr
  end.

(* evalComparableInfixExpression *)
Definition eval_comparable_infix (op : tt) (l r : obj) : eres :=
  if is_undefined l || is_undefined r then eval_null_infix op l r
  else if negb (otype_eqb (type_of l) (type_of r)) then
    match op with EQ => FALSE | NotEQ => TRUE | _ => EErr end
  else
    match l, r with
    | VNum a, VNum b => num_op op a b
    | VStr a, VStr b => cmp_op op (str_compare a b)
    | VBin a, VBin b => cmp_op op (str_compare a b)
    | _, _ => EErr
    end.

(* evalBooleanInfixExpression *)
Definition eval_bool_infix (op : tt) (a b : bool) : eres :=
  match op with
  | AND => of_bool (a && b)
  | OR => of_bool (a || b)
  | EQ => of_bool (Bool.eqb a b)
  | NotEQ => of_bool (negb (Bool.eqb a b))
  | _ => EErr
  end.

(* evalInfixExpression *)
Definition eval_infix (op : tt) (l r : obj) : eres :=
  if is_comparable l && is_comparable r then eval_comparable_infix op l r
  else match l, r with
       | VBool a, VBool b => eval_bool_infix op a b
       | VNull _, VNull _ => eval_null_infix op l r
       | _, _ =>
           match op with
           | EQ => of_bool (equal_object l r)
           | NotEQ => of_bool (negb (equal_object l r))
           | _ => EErr
           end
       end.

Definition is_ident (e : expr) : bool := match e with EIdent _ => true | _ => false end.
Definition is_keyword_op (t : token) : bool := match assoc (lit t) keywords with Some _ => true | None => false end.

(* ---- index accessors ---- *)
Inductive accessor := AccList (pos : Z) | AccMap (name : str).

(* strconv.Atoi on an identifier literal *)
Definition atoi (s : str) : option Z :=
  match s with
  | [] => None
  | _ => if forallb is_digit s then Some (fst (fst (read_digits s 0 0))) else None
  end.

(* int64(float64) for values in range; truncation toward zero *)
Definition f64_to_Z (f : f64) : Z :=
  match f with
  | S754_finite s m e =>
      let v := if (0 <=? e)%Z then (Zpos m * 2 ^ e)%Z else (Zpos m / 2 ^ (- e))%Z in
      if s then (- v)%Z else v
  | _ => 0%Z
  end.

Definition list_get (l : list (option obj)) (pos : Z) : obj :=
  if (pos <? 0)%Z then UNDEFINED
  else match nth_error l (Z.to_nat pos) with Some (Some o) => o | _ => UNDEFINED end.

Definition map_get (m : list (str * obj)) (k : str) : obj :=
  match lookup k m with Some o => o | None => UNDEFINED end.

(* indexAccessor.Get *)
Definition acc_get (a : accessor) (container : obj) : eres :=
  match container, a with
  | VList l, AccList pos => EVal (list_get l pos)
  | VMap m, AccMap k => EVal (map_get m k)
  | _, _ => if is_undefined container then EVal container else EErr
  end.

(* evalIndexValue *)
Definition eval_index_value (e : env) (t : token) (idx : expr) : option accessor :=
  match idx with
  | EIdent it =>
      if tt_beq (ty t) DOT then
        Some (AccMap (match lookup (lit it) (aliases e) with Some a => a | None => lit it end))
      else
        match atoi (lit it) with
        | Some n => Some (AccList n)
        | None => match eval_ident e it true with
                  | EVal (VNum f) => Some (AccList (f64_to_Z f))
                  | _ => None
                  end
        end
  | _ => None
  end.

(* evalIndexPositions: accessors outermost first, and the base object *)
Fixpoint eval_index_positions (e : env) (x : expr) : option (list accessor * obj) :=
  match x with
  | EIdent t =>
      match eval_ident e t true with
      | EErr => None
      | EVal o => match o with
                  | VList _ | VMap _ => Some ([], o)
                  | _ => if is_undefined o then Some ([], o) else None
                  end
      end
  | EIndex t l idx =>
      match eval_index_value e t idx with
      | None => None
      | Some a => match eval_index_positions e l with
                  | Some (accs, o) => Some (a :: accs, o)
                  | None => None
                  end
      end
  | _ => None
  end.

(* evalIndex: apply the accessors from the innermost to the outermost *)
Definition eval_index (e : env) (x : expr) : eres :=
  match eval_index_positions e x with
  | None => EErr
  | Some (accs, o) => fold_right (fun a r => ebind r (acc_get a)) (EVal o) accs
  end.

(* ---- functions.go ---- *)
Definition str_contains (s sub : str) : bool := contains_sub s sub.

Definition fn_contains (path operand : obj) : eres :=
  if is_undefined path then FALSE else
  match path with
  | VStr s => match operand with VStr x => of_bool (str_contains s x) | _ => EErr end
  | VBin s => match operand with VBin x => of_bool (str_contains s x) | _ => EErr end
  | VList l => of_bool (existsb (fun e => match e with Some o => equal_object operand o | None => false end) l)
  | VSS l => match operand with
             | VStr x => of_bool (mem_str x l)
             | VSS xs => of_bool (forallb (fun x => mem_str x l) xs)
             | _ => EErr
             end
  | VBS l => match operand with
             | VBin x => of_bool (mem_str x l)
             | VBS xs => of_bool (forallb (fun x => mem_str x l) xs)
             | _ => EErr
             end
  | VNS l => match operand with
             | VNum x => of_bool (mem_f64 x l)
             | VNS xs => of_bool (forallb (fun x => mem_f64 x l) xs)
             | _ => EErr
             end
  | _ => EErr
  end.

Definition call_cond_function (impl : str) (args : list obj) : eres :=
  match args with
  | [path] =>
      if str_eqb impl (bs "attributeExists") then of_bool (negb (is_undefined path))
      else if str_eqb impl (bs "attributeNotExists") then of_bool (is_undefined path)
      else if str_eqb impl (bs "objectSize") then
        match path with
        | VStr s | VBin s => EVal (VNum (f64_of_Z (Z.of_nat (List.length s))))
        | _ => EErr
        end
      else EErr
  | [path; arg] =>
      if str_eqb impl (bs "attributeType") then
        match arg with
        | VStr t => if mem_str t dynamodb_types
                    then (if is_undefined path then FALSE else of_bool (str_eqb (otype_name (type_of path)) t))
                    else EErr
        | _ => EErr
        end
      else if str_eqb impl (bs "beginsWith") then
        if is_undefined path then FALSE else
        match path, arg with
        | VStr s, VStr p | VBin s, VBin p => of_bool (is_prefix p s)
        | _, _ => EErr
        end
      else if str_eqb impl (bs "contains") then fn_contains path arg
      else EErr
  | _ => EErr
  end.

(* ---- Eval ---- *)
Fixpoint eval (e : env) (x : expr) : eres :=
  match x with
  | ENil => EErr
  | EIdent t => eval_ident e t true
  | EPrefix t r =>
      if is_ident r then EErr
      else ebind (eval e r) (fun o => match o with VBool b => of_bool (negb b) | _ => EErr end)
  | EInfix t l r =>
      if is_keyword_op t && (is_ident l || is_ident r) then EErr
      else ebind (eval e l) (fun lo => ebind (eval e r) (fun ro => eval_infix (ty t) lo ro))
  | EIndex _ _ _ => eval_index e x
  | EBetween _ l lo hi =>
      let operand (y : expr) : eres :=
        match y with
        | EIdent t => ebind (eval_ident e t true) (fun o => if is_comparable o then EVal o else EErr)
        | _ => EErr
        end in
      ebind (operand l) (fun v => ebind (operand lo) (fun mn => ebind (operand hi) (fun mx =>
        if is_undefined v || is_undefined mn || is_undefined mx then FALSE
        else if negb (otype_eqb (type_of v) (type_of mn) && otype_eqb (type_of v) (type_of mx)) then EErr
        else ebind (eval_comparable_infix LTE mn v) (fun a =>
             ebind (eval_comparable_infix LTE v mx) (fun b =>
               match a, b with VBool a', VBool b' => of_bool (a' && b') | _, _ => EErr end)))))
  | EIn _ l rng =>
      let operand (y : expr) : eres := match y with EIdent t => eval_ident e t true | _ => EErr end in
      ebind (operand l) (fun v =>
        let go := (fix go (rs : list expr) (acc : bool) : eres :=
           match rs with
           | [] => if is_undefined v then FALSE else of_bool acc
           | y :: rest => ebind (operand y) (fun o => go rest (acc || equal_object v o))
           end) in
        match rng with Some l => go l false | None => go [] false end)
  | ECall _ f args =>
      match f with
      | EIdent ft =>
          match assoc (lit ft) functions with
          | None => EErr
          | Some (for_update, arity, impl) =>
              if for_update then EErr else
              let go := (fix go (rs : list expr) (acc : list obj) : eres :=
                 match rs with
                 | [] => if Nat.eqb (List.length acc) arity then call_cond_function impl acc else EErr
                 | y :: rest => ebind (eval e y) (fun o => go rest (acc ++ [o]))
                 end) in
              match args with Some l => go l [] | None => go [] [] end
          end
      | _ => EErr
      end
  | _ => EErr
  end.

(* evalConditional: the result must be a BOOL *)
Definition eval_conditional (e : env) (x : expr) : option bool :=
  match eval e x with EVal (VBool b) => Some b | _ => None end.
