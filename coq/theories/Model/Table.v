(* core/table.go: tables, single-item writes, SearchData. The expression interpreter (Language)
   is a parameter of the section; the native registry and its dispatch are modelled here. *)
From Coq Require Import List Bool Arith NArith.
From Coq Require Import Strings.Byte Strings.String.
From Minidyn Require Import Base.Str Base.FMap Base.Outcome Model.Value Model.Key Model.Index.
Import ListNotations.

Inductive ekind := KKey | KFilter | KCond.

(* interpreter/native.go *)
Record registry := {
  r_key : fmap (nat * bool);       (* table|normalised text -> (registration id, verdict) *)
  r_filter : fmap (nat * bool);
  r_cond : fmap (nat * bool);
  r_upd : fmap (nat * item)        (* table|normalised text -> (registration id, attributes the updater sets) *)
}.
Definition empty_registry : registry := {| r_key := []; r_filter := []; r_cond := []; r_upd := [] |}.

Definition is_space (b : byte) : bool :=
  let n := b2n b in (N.eqb n 32 || N.eqb n 9 || N.eqb n 10 || N.eqb n 13)%N.   (* the lexer's whitespace, nothing else (fix 21a3e12) *)

(* strings.FieldsFunc(s, isExpressionSpace) *)
Fixpoint fields_aux (s : str) (cur : str) : list str :=
  match s with
  | [] => match cur with [] => [] | _ => [rev cur] end
  | c :: t => if is_space c
              then match cur with [] => fields_aux t [] | _ => rev cur :: fields_aux t [] end
              else fields_aux t (c :: cur)
  end.
Definition fields (s : str) : list str := fields_aux s [].

(* hashExpressionKey *)
Definition norm_expr (s : str) : str := join (bs " ") (fields s).
(* strconv.Itoa *)
Fixpoint dec_str (u : Decimal.uint) : str :=
  match u with
  | Decimal.Nil => []
  | Decimal.D0 r => "0"%byte :: dec_str r | Decimal.D1 r => "1"%byte :: dec_str r | Decimal.D2 r => "2"%byte :: dec_str r
  | Decimal.D3 r => "3"%byte :: dec_str r | Decimal.D4 r => "4"%byte :: dec_str r | Decimal.D5 r => "5"%byte :: dec_str r
  | Decimal.D6 r => "6"%byte :: dec_str r | Decimal.D7 r => "7"%byte :: dec_str r | Decimal.D8 r => "8"%byte :: dec_str r
  | Decimal.D9 r => "9"%byte :: dec_str r
  end.
Definition itoa (n : nat) : str := dec_str (Nat.to_uint n).

(* registrationKey (fix cbdfecf): the length of the table name keeps (table, expression) pairs apart *)
Definition reg_key (table expr : str) : str := itoa (List.length table) ++ bs "|" ++ table ++ bs "|" ++ norm_expr expr.

Definition reg_matchers (r : registry) (k : ekind) : fmap (nat * bool) :=
  match k with KKey => r_key r | KFilter => r_filter r | KCond => r_cond r end.

Definition add_matcher (r : registry) (table : str) (k : ekind) (expr : str) (id : nat) (verdict : bool) : registry :=
  let key := reg_key table expr in
  match k with
  | KKey => {| r_key := insert key (id, verdict) (r_key r); r_filter := r_filter r; r_cond := r_cond r; r_upd := r_upd r |}
  | KFilter => {| r_key := r_key r; r_filter := insert key (id, verdict) (r_filter r); r_cond := r_cond r; r_upd := r_upd r |}
  | KCond => {| r_key := r_key r; r_filter := r_filter r; r_cond := insert key (id, verdict) (r_cond r); r_upd := r_upd r |}
  end.

Definition add_updater (r : registry) (table expr : str) (id : nat) (set : item) : registry :=
  {| r_key := r_key r; r_filter := r_filter r; r_cond := r_cond r;
     r_upd := insert (reg_key table expr) (id, set) (r_upd r) |}.

Record ictx := { use_native : bool; reg : registry }.

Record table := {
  t_name : str;
  t_ks : keyschema;
  t_defs : fmap str;                (* AttributesDef *)
  t_sorted : list str;              (* SortedKeys *)
  t_data : fmap item;               (* Data *)
  t_indexes : fmap index            (* Indexes *)
}.

Record query := {
  q_index : option str;
  q_values : item;
  q_names : fmap str;
  q_limit : nat;                    (* 0 = no limit *)
  q_esk : item;
  q_keycond : str;                  (* "" = none *)
  q_filter : str;
  q_cond : option str;
  q_forward : bool;
  q_scan : bool
}.

Section Core.
(* interpreter.Language.Match / Update *)
Variable lang_match : str -> item -> item -> fmap str -> outcome bool.
Variable lang_update : str -> item -> item -> fmap str -> outcome item.

Definition lang_panic {A} (e : errclass) : outcome A :=
  match e with
  | Syntax => Panic SyntaxPanic
  | Unsupported => Panic UnsupportedPanic
  | _ => Panic RuntimePanic
  end.

(* Table.interpreterMatch: a registered native matcher wins; otherwise the language interpreter,
   whose errors are raised as panics *)
Definition interp_match (c : ictx) (tname : str) (k : ekind) (expr : str) (it vals : item) (names : fmap str)
  : outcome (bool * list nat) :=
  let lang := match lang_match expr it vals names with
              | Ok b => Ok (b, [])
              | Err e => lang_panic e
              | Panic p => Panic p
              | OutOfFuel => OutOfFuel
              end in
  if use_native c then
    match lookup (reg_key tname expr) (reg_matchers (reg c) k) with
    | Some (id, verdict) => Ok (verdict, [id])
    | None => lang
    end
  else lang.

(* Table.interpreterUpdate: with the native interpreter on there is no fallback *)
Definition poke_marker : str := bs "@poke".
Definition scalar_marker : str := bs "@pokes".
Definition drop_marker : str := bs "@drop".

Definition interp_update (c : ictx) (tname expr : str) (it vals : item) (names : fmap str)
  : outcome (item * list nat) :=
  if use_native c then
    match lookup (reg_key tname expr) (r_upd (reg c)) with
    | Some (id, set) =>
        (* the callbacks the harness registers: they set the attributes of [set]; when [set] carries the marker attribute
           "@poke" they also write, in place, the entry poked -> "p" into every top-level map attribute of the item (an
           updater is arbitrary user code working on the item it is handed) *)
        let it0 := fold_left (fun acc kv => insert (fst kv) (snd kv) acc) (remove drop_marker (remove scalar_marker (remove poke_marker set))) it in
        (* marker "@pokes": the scalar attribute x is changed in place, through the pointer the item holds *)
        let it1 := if mem scalar_marker set
                   then match lookup (bs "x") it0 with
                        | Some (AS s) => insert (bs "x") (AS (s ++ bs "!")) it0
                        | Some (AN _) => insert (bs "x") (AN (bs "777")) it0
                        | _ => it0
                        end
                   else it0 in
        let it2 := if mem poke_marker set
            then map (fun kv => match snd kv with
                                | AM m => (fst kv, AM (insert (bs "poked") (AS (bs "p")) m))
                                (* ... and into every map that is an element of a top-level list attribute *)
                                | AL l => (fst kv, AL (map (fun e => match e with AM m => AM (insert (bs "poked") (AS (bs "p")) m) | _ => e end) l))
                                | _ => kv end) it1
            else it1 in
        (* marker "@drop": the updater deletes the attribute the marker names *)
        Ok (match lookup drop_marker set with Some (AS n) => remove n it2 | _ => it2 end, [id])
    | None => Err Unsupported
    end
  else omap (fun i => (i, [])) (lang_update expr it vals names).

(* Table.matchKey: (last expression type, matched); "" / key / filter / conditional *)
Inductive etype := ENone | EKey | EFilter | ECond.

Definition match_key (c : ictx) (t : table) (q : query) (it : item) : outcome (etype * bool * list nat) :=
  let s0 : outcome (etype * bool * list nat) := Ok (ENone, q_scan q, []) in
  let s1 := obind s0 (fun '(e, m, f) =>
              match q_keycond q with
              | [] => Ok (e, m, f)
              | kc => obind (interp_match c (t_name t) KKey kc it (q_values q) (q_names q))
                        (fun '(b, f') => Ok (EKey, b, f ++ f'))
              end) in
  let s2 := obind s1 (fun '(e, m, f) =>
              match q_filter q with
              | [] => Ok (e, m, f)
              | fe => if m
                      then obind (interp_match c (t_name t) KFilter fe it (q_values q) (q_names q))
                             (fun '(b, f') => Ok (EFilter, b, f ++ f'))
                      else Ok (EFilter, false, f)
              end) in
  obind s2 (fun '(e, m, f) =>
              match q_cond q with
              | Some ((_ :: _) as ce) =>
                  obind (interp_match c (t_name t) KCond ce it (q_values q) (q_names q))
                    (fun '(b, f') => Ok (ECond, b, f ++ f'))
              | _ => Ok (e, m, f)
              end).

Definition cond_query (cond : option str) (names : fmap str) (vals : item) : query :=
  {| q_index := None; q_values := vals; q_names := names; q_limit := 1; q_esk := []; q_keycond := [];
     q_filter := []; q_cond := cond; q_forward := false; q_scan := false |}.

Definition get_item (t : table) (key : str) : item :=
  match lookup key (t_data t) with Some i => i | None => [] end.

(* Table.setItem *)
Definition set_item (t : table) (key : str) (it : item) : table :=
  {| t_name := t_name t; t_ks := t_ks t; t_defs := t_defs t;
     t_sorted := if mem key (t_data t) then t_sorted t else ins_sorted key (t_sorted t);
     t_data := insert key it (t_data t);
     t_indexes := t_indexes t |}.

Definition with_indexes (t : table) (ixs : fmap index) : table :=
  {| t_name := t_name t; t_ks := t_ks t; t_defs := t_defs t; t_sorted := t_sorted t; t_data := t_data t;
     t_indexes := ixs |}.

(* Table.validateIndexKeys *)
Fixpoint validate_index_keys (defs : fmap str) (ixs : fmap index) (it : item) : bool :=
  match ixs with
  | [] => true
  | (_, ix) :: rest =>
      match get_key (ix_ks ix) defs it with
      | inl _ => false
      | inr _ => validate_index_keys defs rest it
      end
  end.

(* for _, index := range t.Indexes { index.putData(key, item) } ; cannot fail after validation *)
Definition put_indexes (defs : fmap str) (key : str) (it : item) (ixs : fmap index) : fmap index :=
  map (fun ni => (fst ni, match ix_put defs key it (snd ni) with inr ix' => ix' | inl _ => snd ni end)) ixs.

Definition delete_indexes (key : str) (ixs : fmap index) : fmap index :=
  map (fun ni => (fst ni, ix_delete key (snd ni))) ixs.

(* result of a single-item write *)
Inductive wres :=
| WOk (it : option item) (fired : list nat)   (* Put: None; Update: the new item; Delete: the old item, if any *)
| WCondFailed (cur : item) (fired : list nat) (* the condition was false of the stored item [cur] *)
| WErr (e : errclass)
| WPanic (p : panic)
| WFuel.

(* the write condition, evaluated on the item stored under the request's own key *)
Definition check_cond (c : ictx) (t : table) (cur : item) (cond : option str) (names : fmap str) (vals : item)
  : outcome (bool * list nat) :=
  match cond with
  | None => Ok (true, [])
  | Some _ => omap (fun '(_, m, f) => (m, f)) (match_key c t (cond_query cond names vals) cur)
  end.

(* Table.Put *)
Definition t_put (c : ictx) (t : table) (it : item) (cond : option str) (names : fmap str) (vals : item)
  : table * wres :=
  match get_key (t_ks t) (t_defs t) it with
  | inl _ => (t, WErr Validation)
  | inr key =>
      match check_cond c t (get_item t key) cond names vals with
      | Ok (true, f) =>
          if validate_index_keys (t_defs t) (t_indexes t) it
          then let t1 := set_item t key it in
               (with_indexes t1 (put_indexes (t_defs t) key it (t_indexes t1)), WOk (lookup key (t_data t)) f)
          else (t, WErr Validation)
      | Ok (false, f) => (t, WCondFailed (get_item t key) f)
      | Err e => (t, WErr e)
      | Panic p => (t, WPanic p)
      | OutOfFuel => (t, WFuel)
      end
  end.

(* Table.Update *)
Definition t_update (c : ictx) (t : table) (key_item : item) (expr : str) (cond : option str)
    (names : fmap str) (vals : item) : table * wres :=
  match get_key (t_ks t) (t_defs t) key_item with
  | inl _ => (t, WErr Validation)
  | inr key =>
      let stored := lookup key (t_data t) in
      let cur := match stored with Some i => i | None => [] end in
      match check_cond c t cur cond names vals with
      | Ok (true, f) =>
          let base := match stored with Some i => i | None => Key.key_item (t_ks t) key_item end in
          match interp_update c (t_name t) expr base vals names with
          | Ok (it', f') =>
              if validate_index_keys (t_defs t) (t_indexes t) it'
              then let t1 := set_item t key it' in
                   (with_indexes t1 (put_indexes (t_defs t) key it' (t_indexes t1)), WOk (Some it') (f ++ f'))
              else (t, WErr Validation)
          | Err e => (t, WErr e)
          | Panic p => (t, WPanic p)
          | OutOfFuel => (t, WFuel)
          end
      | Ok (false, f) => (t, WCondFailed cur f)
      | Err e => (t, WErr e)
      | Panic p => (t, WPanic p)
      | OutOfFuel => (t, WFuel)
      end
  end.

(* Table.Delete *)
Definition t_delete (c : ictx) (t : table) (key_item : item) (cond : option str) (names : fmap str) (vals : item)
  : table * wres :=
  match get_key (t_ks t) (t_defs t) key_item with
  | inl _ => (t, WErr Validation)
  | inr key =>
      match check_cond c t (get_item t key) cond names vals with
      | Ok (true, f) =>
          match lookup key (t_data t) with
          | None => (t, WOk None f)
          | Some old =>
              let pos := lower_bound key (t_sorted t) in
              let data' := remove key (t_data t) in
              if Nat.eqb pos (List.length (t_sorted t))
              then ({| t_name := t_name t; t_ks := t_ks t; t_defs := t_defs t; t_sorted := t_sorted t;
                       t_data := data'; t_indexes := t_indexes t |}, WOk (Some old) f)
              else ({| t_name := t_name t; t_ks := t_ks t; t_defs := t_defs t;
                       t_sorted := remove_at pos (t_sorted t);
                       t_data := data';
                       t_indexes := delete_indexes key (t_indexes t) |}, WOk (Some old) f)
          end
      | Ok (false, f) => (t, WCondFailed (get_item t key) f)
      | Err e => (t, WErr e)
      | Panic p => (t, WPanic p)
      | OutOfFuel => (t, WFuel)
      end
  end.

(* Table.Clear + index.Clear (ClearTable helper) *)
Definition t_clear (t : table) : table :=
  {| t_name := t_name t; t_ks := t_ks t; t_defs := t_defs t; t_sorted := []; t_data := [];
     t_indexes := map (fun ni => (fst ni, ix_clear (snd ni))) (t_indexes t) |}.

(* ---------------- SearchData ---------------- *)

Definition parse_start_key (ks : keyschema) (defs : fmap str) (esk : item) : str :=
  match esk with
  | [] => []
  | _ => match get_key ks defs esk with inr k => k | inl _ => [] end
  end.

(* whether the request names a start key at all (the key string itself may be empty) *)
Definition has_start_key (ks : keyschema) (defs : fmap str) (esk : item) : bool :=
  match esk with
  | [] => false
  | _ => match get_key ks defs esk with inr _ => true | inl _ => false end
  end.

(* afterStartKey *)
Definition after_start_key (k pk start_ik start_pk : str) (forward : bool) : bool :=
  if negb (str_eqb k start_ik) then Bool.eqb (str_ltb start_ik k) forward
  else if negb (str_eqb pk start_pk) then Bool.eqb (str_ltb start_pk pk) forward
  else false.

Record sstate := {
  s_started : bool; s_count : nat; s_scanned : nat; s_last : item; s_items : list item; s_fired : list nat
}.

(* one iteration of the loop; returns the new state and whether the page breaks *)
Definition search_step (c : ictx) (t : table) (q : query) (has_pos : bool) (start_ik start_pk : str)
    (e : str * option str) (s : sstate) : outcome (sstate * bool) :=
  let '(k, opk) := e in
  let skip := Ok ({| s_started := s_started s; s_count := s_count s; s_scanned := S (s_scanned s);
                     s_last := s_last s; s_items := s_items s; s_fired := s_fired s |}, false) in
  match opk with
  | None => skip
  | Some pk =>
      (* prepareSearch *)
      let go (started' : bool) :=
        let stored := lookup pk (t_data t) in
        let it := match stored with Some i => i | None => [] end in
        obind (match_key c t q it) (fun '(ety, m, f) =>
          let matched := match stored with Some _ => m | None => true end in
          let count' := match ety with
                        | ENone | EFilter => S (s_count s)
                        | EKey => if matched then S (s_count s) else s_count s
                        | ECond => s_count s
                        end in
          Ok ({| s_started := started'; s_count := count'; s_scanned := S (s_scanned s);
                 s_last := it; s_items := if matched then s_items s ++ [it] else s_items s;
                 s_fired := s_fired s ++ f |},
              negb (Nat.eqb (q_limit q) 0) && Nat.eqb (q_limit q) count')) in
      if s_started s then go true
      else if has_pos
           then (if after_start_key k pk start_ik start_pk (q_forward q) then go true else skip)
           else (* position unknown: wait for the item itself *)
               Ok ({| s_started := str_eqb pk start_pk; s_count := s_count s; s_scanned := S (s_scanned s);
                      s_last := s_last s; s_items := s_items s; s_fired := s_fired s |}, false)
  end.

Fixpoint search_loop (c : ictx) (t : table) (q : query) (has_pos : bool) (start_ik start_pk : str)
    (es : list (str * option str)) (s : sstate) : outcome sstate :=
  match es with
  | [] => Ok s
  | e :: rest =>
      obind (search_step c t q has_pos start_ik start_pk e s) (fun '(s', brk) =>
        if brk then Ok s' else search_loop c t q has_pos start_ik start_pk rest s')
  end.

Definition merge_items (a b : item) : item := fold_left (fun acc kv => insert (fst kv) (snd kv) acc) b a.

(* Table.SearchData: (items, last evaluated key, fired native callbacks) *)
Definition search_data (c : ictx) (t : table) (q : query) : outcome (list item * item * list nat) :=
  let oix := match q_index q with Some n => lookup n (t_indexes t) | None => None end in
  let entries :=
    match oix with
    | Some ix => walk_index (if q_forward q then ix_sorted ix else rev (ix_sorted ix)) (sorted_refs ix (q_forward q))
    | None => map (fun k => (k, Some k)) (if q_forward q then t_sorted t else rev (t_sorted t))
    end in
  let size := List.length entries in
  let start_pk := parse_start_key (t_ks t) (t_defs t) (q_esk q) in
  let start_ik :=
    match oix with
    | Some ix => match parse_start_key (ix_ks ix) (t_defs t) (q_esk q) with
                 | [] => match lookup start_pk (ix_refs ix) with Some ik => ik | None => [] end
                 | ik => ik
                 end
    | None => start_pk
    end in
  let has_pos := match oix with Some _ => match start_ik with [] => false | _ => true end | None => true end in
  let s0 := {| s_started := negb (has_start_key (t_ks t) (t_defs t) (q_esk q));
               s_count := 0; s_scanned := 0; s_last := []; s_items := []; s_fired := [] |} in
  obind (search_loop c t q has_pos start_ik start_pk entries s0) (fun s =>
    let lek :=
      match s_last s with
      | [] => []
      | last =>
          if Nat.eqb (q_limit q) 0 then []
          else if Nat.leb (s_scanned s) size && Nat.leb (q_limit q) (s_count s)
               then merge_items (key_item (t_ks t) last)
                      (match oix with Some ix => key_item (ix_ks ix) last | None => [] end)
               else []
      end in
    Ok (s_items s, lek, s_fired s)).

End Core.
