(* interpreter/language/parser.go: the Pratt parser, both registrations (conditions and updates).
   Go loops are recursive functions; all of them decrease one fuel argument. nil results of the Go
   parser are the explicit ENil node (they always come with a recorded error). *)
From Coq Require Import List Bool Arith.
From Coq Require Import Strings.Byte Strings.String.
From Minidyn Require Import Base.Str Model.Token Gen.Tables Model.Lexer.
Import ListNotations.

Inductive expr :=
| ENil
| EIdent (t : token)
| EPrefix (t : token) (r : expr)
| EInfix (t : token) (l r : expr)
| ECall (t : token) (f : expr) (args : option (list expr))
| EIndex (t : token) (l idx : expr)
| EBetween (t : token) (l lo hi : expr)
| EIn (t : token) (l : expr) (rng : option (list expr))
| EUpdate (t : token) (acts : option (list expr))
| EAction (t : token) (l r : expr)       (* r = ENil for REMOVE *)
| EActionNil.                            (* typed-nil *ActionExpression *)

Record ps := { rest : str; cur : token; peek : token; nerrs : nat; unsupported : bool }.

Definition next (p : ps) : ps :=
  let '(t, r) := next_token (rest p) in
  {| rest := r; cur := peek p; peek := t; nerrs := nerrs p; unsupported := unsupported p |}.

Definition add_err (p : ps) : ps :=
  {| rest := rest p; cur := cur p; peek := peek p; nerrs := S (nerrs p); unsupported := unsupported p |}.

Definition init (s : str) : ps :=
  let z := {| ty := ILLEGAL; lit := [] |} in
  next (next {| rest := s; cur := z; peek := z; nerrs := 0; unsupported := false |}).

Definition prec (t : tt) : nat := match assoc_tt t prec_table with Some n => n | None => prec_lowest end.

Definition peek_is (p : ps) (t : tt) : bool := tt_beq (ty (peek p)) t.

Definition expect_peek (p : ps) (t : tt) : bool * ps :=
  if peek_is p t then (true, next p) else (false, add_err p).

Definition res (A : Type) := option A.   (* None = out of fuel *)
Definition bind {A B} (x : res A) (f : A -> res B) : res B := match x with Some a => f a | None => None end.
Notation "'do' ' x <- a ; b" := (bind a (fun x => b)) (at level 200, x pattern, a at level 100, b at level 200).

Section P.
Variable upd : bool.
Definition prefix_fn (t : tt) : option pfn := assoc_tt t (if upd then upd_prefix else cond_prefix).
Definition infix_fn (t : tt) : option ifn := assoc_tt t (if upd then upd_infix else cond_infix).

Fixpoint pexpr (n : nat) (pr : nat) (p : ps) : res (expr * ps) :=
  match n with O => None | S n =>
    match prefix_fn (ty (cur p)) with
    | None => Some (ENil, add_err p)
    | Some f => do '(l, p) <- pprefix n f p; ploop n pr l p
    end
  end
with ploop (n : nat) (pr : nat) (l : expr) (p : ps) : res (expr * ps) :=
  match n with O => None | S n =>
    if negb (peek_is p EOF) && (pr <? prec (ty (peek p))) then
      match infix_fn (ty (peek p)) with
      | None => Some (l, p)
      | Some f => do '(l', p') <- pinfix n f l (next p); ploop n pr l' p'
      end
    else Some (l, p)
  end
with pprefix (n : nat) (f : pfn) (p : ps) : res (expr * ps) :=
  match n with O => None | S n =>
    match f with
    | PIdent => Some (EIdent (cur p), p)
    | PNot => let t := cur p in do '(r, p) <- pexpr n prec_not (next p); Some (EPrefix t r, p)
    | PGroup => do '(e, p) <- pexpr n prec_lowest (next p);
                let '(ok, p) := expect_peek p RPAREN in Some (if ok then e else ENil, p)
    | PAction => let t := cur p in do '(a, p) <- pactions n t p; Some (EUpdate t a, p)
    end
  end
with pinfix (n : nat) (f : ifn) (l : expr) (p : ps) : res (expr * ps) :=
  match n with O => None | S n =>
    match f with
    | IInfix => let t := cur p in do '(r, p) <- pexpr n (prec (ty t)) (next p); Some (EInfix t l r, p)
    | ICall => let t := cur p in do '(a, p) <- pargs n p; Some (ECall t l a, p)
    | IIndex => let t := cur p in
                let '(ok0, p) := expect_peek p IDENT in
                if negb ok0 then Some (ENil, p)
                else let idx := EIdent (cur p) in
                     if tt_beq (ty t) DOT then Some (EIndex t l idx, p)
                     else let '(ok, p) := expect_peek p RBRACKET in Some (if ok then EIndex t l idx else ENil, p)
    | IBetween => let t := cur p in
                  let '(ok0, p) := expect_peek p IDENT in
                  if negb ok0 then Some (ENil, p)
                  else let lo := EIdent (cur p) in
                       let '(ok, p) := expect_peek p AND in
                       if negb ok then Some (ENil, p)
                       else let '(ok2, p) := expect_peek p IDENT in
                            if ok2 then Some (EBetween t l lo (EIdent (cur p)), p) else Some (ENil, p)
    | IIn => let '(ok, p) := expect_peek p LPAREN in
             if ok then let t := cur p in do '(a, p) <- pargs n p;
                        Some (EIn t l a, match a with Some [] => add_err p | _ => p end)    (* IN needs an operand (fix b073bc3) *)
             else Some (ENil, p)
    end
  end
with pargs (n : nat) (p : ps) : res (option (list expr) * ps) :=
  match n with O => None | S n =>
    if peek_is p RPAREN then Some (Some [], next p)
    else do '(e, p) <- pexpr n prec_lowest (next p);
         do '(es, p) <- pargs_more n [e] p;
         let '(ok, p) := expect_peek p RPAREN in Some (if ok then Some es else None, p)
  end
with pargs_more (n : nat) (acc : list expr) (p : ps) : res (list expr * ps) :=
  match n with O => None | S n =>
    if peek_is p COMMA then do '(e, p) <- pexpr n prec_lowest (next (next p)); pargs_more n (acc ++ [e]) p
    else Some (acc, p)
  end
with paction (n : nat) (t : token) (p : ps) : res (expr * ps) :=
  match n with O => None | S n =>
    do '(l, p) <- pexpr n prec_lowest p;
    if tt_beq (ty t) SET && negb (peek_is p EQ) then Some (EActionNil, add_err p)
    else let p := if tt_beq (ty t) SET then next p else p in
         if negb (tt_beq (ty t) REMOVE) then do '(r, p) <- pexpr n prec_lowest (next p); Some (EAction t l r, p)
         else Some (EAction t l ENil, p)
  end
with pactions (n : nat) (t : token) (p : ps) : res (option (list expr) * ps) :=
  match n with O => None | S n =>
    if peek_is p EOF then Some (Some [], p)
    else do '(a, p) <- paction n t (next p);
         do '(acts, p) <- pactions_more n t [a] p;
         let '(ok, p) := expect_peek p EOF in Some (if ok then Some acts else None, p)
  end
with pactions_more (n : nat) (t : token) (acc : list expr) (p : ps) : res (list expr * ps) :=
  match n with O => None | S n =>
    if peek_is p COMMA then do '(a, p) <- paction n t (next (next p)); pactions_more n t (acc ++ [a]) p
    else if peek_is p SET || peek_is p ADD || peek_is p REMOVE || peek_is p DELETE then
      let p := next p in let t' := cur p in
      do '(other, p) <- pactions n t' p;
      match other with
      | Some ((_ :: _) as l) => pactions_more n t (acc ++ l) p
      | _ => pactions_more n t acc (add_err p)       (* a further clause keyword without any action *)
      end
    else Some (acc, p)
  end.

(* expectEnd: nothing may follow the expression that was just parsed *)
Definition expect_end (p : ps) : ps :=
  if tt_beq (ty (cur p)) EOF || peek_is p EOF then p else add_err p.

(* the body shared by ParseConditionalExpression / ParseUpdateExpression *)
Definition ptop (n : nat) (p : ps) : res (expr * ps) :=
  if tt_beq (ty (cur p)) EOF then Some (ENil, p)
  else do '(e, p) <- pexpr n prec_lowest p; Some (e, expect_end p).
End P.

(* fuel sufficient for every input: see Proofs/ParserFuel.v *)
Definition parse_fuel (s : str) : nat := 8 * List.length s + 16.

(* (AST, number of parser errors); None = out of fuel *)
Definition parse_cond_fuel (fuel : nat) (s : str) : res (expr * nat) :=
  let p := init s in
  if tt_beq (ty (cur p)) IDENT && tt_beq (ty (peek p)) EOF then Some (ENil, 1)
  else do '(e, p) <- ptop false fuel p; Some (e, nerrs p).

Definition parse_upd_fuel (fuel : nat) (s : str) : res (expr * nat) :=
  do '(e, p) <- ptop true fuel (init s); Some (e, nerrs p).

Definition parse_cond (s : str) := parse_cond_fuel (parse_fuel s) s.
Definition parse_upd (s : str) := parse_upd_fuel (parse_fuel s) s.

(* ---------------- String() of the AST, as ast.go prints it (for the unit-level correspondence) -------- *)
Definition tok_lit (e : expr) : str :=
  match e with
  | EIdent t | EPrefix t _ | EInfix t _ _ | ECall t _ _ | EIndex t _ _ | EBetween t _ _ _ | EIn t _ _
  | EUpdate t _ | EAction t _ _ => lit t
  | _ => []
  end.

Fixpoint show (e : expr) : str :=
  match e with
  | ENil => bs "<nil>"
  | EIdent t => lit t
  | EPrefix t r => bs "(" ++ lit t ++ show r ++ bs ")"
  | EInfix t l r => bs "(" ++ show l ++ bs " " ++ lit t ++ bs " " ++ show r ++ bs ")"
  | ECall _ f a => show f ++ bs "(" ++ match a with Some l => join (bs ", ") (map show l) | None => [] end ++ bs ")"
  | EIndex t l i => bs "(" ++ show l ++ bs "[" ++ show i ++ bs "])"
  | EBetween _ l lo hi => show l ++ bs " BETWEEN " ++ show lo ++ bs " AND " ++ show hi
  | EIn _ l a => bs "(" ++ show l ++ bs " IN (" ++ match a with Some l => join (bs ", ") (map tok_lit l) | None => [] end ++ bs "))"
  | EUpdate t a => bs "(" ++ match a with Some l => List.concat (map show l) | None => [] end ++ bs ")"
  | EAction t l r => lit t ++ bs " (" ++ show l ++
                     (if tt_beq (ty t) REMOVE then bs ")" else (if tt_beq (ty t) SET then bs " = " else bs ", ") ++ show r ++ bs ")")
  | EActionNil => bs "<nilaction>"
  end.
