(* core/index.go: secondary indexes. *)
From Coq Require Import List Bool Arith.
From Coq Require Import Strings.Byte Strings.String.
From Minidyn Require Import Base.Str Base.FMap Model.Value Model.Key.
Import ListNotations.

Inductive ixtype := IxGlobal | IxLocal.

Record index := {
  ix_ks : keyschema;
  ix_typ : ixtype;
  ix_sorted : list str;        (* sortedKeys: index key strings, sorted, one per indexed item *)
  ix_refs : fmap str           (* refs: primary key string -> index key string *)
}.

Definition new_index (typ : ixtype) (h r : str) : index :=
  {| ix_ks := {| hashk := h; rangek := r; secondary := true |}; ix_typ := typ; ix_sorted := []; ix_refs := [] |}.

Definition ix_clear (ix : index) : index :=
  {| ix_ks := ix_ks ix; ix_typ := ix_typ ix; ix_sorted := []; ix_refs := [] |}.

(* index.remove: drop the reference and one occurrence of its index key (binary search + equality test) *)
Definition ix_remove (key : str) (ix : index) : index :=
  match lookup key (ix_refs ix) with
  | None => ix
  | Some ik =>
      let pos := lower_bound ik (ix_sorted ix) in
      let sorted' :=
        match nth_error (ix_sorted ix) pos with
        | Some k' => if str_eqb k' ik then remove_at pos (ix_sorted ix) else ix_sorted ix
        | None => ix_sorted ix
        end in
      {| ix_ks := ix_ks ix; ix_typ := ix_typ ix; ix_sorted := sorted'; ix_refs := remove key (ix_refs ix) |}
  end.

(* index.putData (= updateData): re-file the item under its current index key; sparse *)
Definition ix_put (defs : fmap str) (key : str) (it : item) (ix : index) : keyerr + index :=
  match get_key (ix_ks ix) defs it with
  | inl e => inl e
  | inr ik =>
      let ix1 := ix_remove key ix in
      match ik with
      | [] => inr ix1
      | _ => inr {| ix_ks := ix_ks ix1; ix_typ := ix_typ ix1;
                    ix_sorted := ins_sorted ik (ix_sorted ix1);
                    ix_refs := insert key ik (ix_refs ix1) |}
      end
  end.

Definition ix_delete (key : str) (ix : index) : index := ix_remove key ix.

(* startSearch: refs as (pk, ik) pairs ordered by (ik, pk); descending when scanning backward *)
Definition ref_ltb (a b : str * str) : bool :=
  match str_compare (snd a) (snd b) with
  | Lt => true | Gt => false | Eq => str_ltb (fst a) (fst b)
  end.

Fixpoint ins_ref (x : str * str) (l : list (str * str)) : list (str * str) :=
  match l with
  | [] => [x]
  | y :: t => if ref_ltb x y then x :: l else y :: ins_ref x t
  end.

Definition sorted_refs (ix : index) (forward : bool) : list (str * str) :=
  let asc := fold_right ins_ref [] (ix_refs ix) in
  if forward then asc else rev asc.

(* the lock-step walk of SearchData over sortedKeys and sortedRefs: for every position the
   index key found there and the primary key getPrimaryKey answers (None = "not ok") *)
Fixpoint walk_index (ks : list str) (refs : list (str * str)) : list (str * option str) :=
  match ks with
  | [] => []
  | k :: ks' =>
      match refs with
      | [] => (k, None) :: walk_index ks' []
      | (pk, ik) :: refs' => (k, if str_eqb k ik then Some pk else None) :: walk_index ks' refs'
      end
  end.

Definition ix_count (ix : index) : nat := List.length (ix_sorted ix).
