(* C14: located values. Every mutable cell of a value (pointer target, slice, map) carries a location; a mapper
   either allocates a new cell (fresh) or reuses the cell of its argument (shared), per kind, as the generated
   copy table says. *)
From Coq Require Import List Bool Arith Lia.
From Coq Require Import Strings.Byte Strings.String.
From Minidyn Require Import Base.Str Gen.Copies.
Import ListNotations.

Inductive lval := LNode (loc : nat) (kind : str) (children : list lval).

Fixpoint locs (v : lval) : list nat :=
  match v with LNode l _ cs => l :: flat_map locs cs end.

(* thread a counter through the copies of a list of values *)
Definition copy_list (f : nat -> lval -> lval * nat) : list lval -> nat -> list lval * nat :=
  fix go (cs : list lval) (n : nat) : list lval * nat :=
    match cs with
    | [] => ([], n)
    | c :: rest => let '(c', n1) := f n c in let '(rest', n2) := go rest n1 in (c' :: rest', n2)
    end.

(* copy a value, drawing new locations from a counter; [shared kind] = true reuses the argument's cell *)
Section Copy.
Variable shared : str -> bool.

Fixpoint copy_val (next : nat) (v : lval) : lval * nat :=
  match v with
  | LNode l k cs =>
      let '(l', next1) := if shared k then (l, next) else (next, S next) in
      let '(cs', next2) := copy_list copy_val cs next1 in
      (LNode l' k cs', next2)
  end.
End Copy.

Definition table_shared (sdk dir : str) (kind : str) : bool :=
  existsb (fun e => let '(s, d, k, b) := e in str_eqb s sdk && str_eqb d dir && str_eqb k kind && b) copy_table.

Definition all_kinds : list str :=
  [bs "B"; bs "BOOL"; bs "BS"; bs "L"; bs "M"; bs "N"; bs "NS"; bs "NULL"; bs "S"; bs "SS"].

Definition table_covers (sdk dir : str) : bool :=
  forallb (fun k => existsb (fun e => let '(s, d, k', _) := e in str_eqb s sdk && str_eqb d dir && str_eqb k' k) copy_table) all_kinds.
