(* interpreter/language/token.go: token types. *)
From Coq Require Import List Bool.
From Coq Require Import Strings.Byte Strings.String.
From Minidyn Require Import Base.Str.
Import ListNotations.

Inductive tt :=
| ILLEGAL | EOF | IDENT | LT | LTE | GT | GTE | EQ | NotEQ | COMMA | LPAREN | RPAREN
| LBRACKET | RBRACKET | DOT | AND | OR | NOT | BETWEEN | IN | SET | REMOVE | ADD | DELETE | PLUS | MINUS.

Scheme Equality for tt.

Record token := { ty : tt; lit : str }.

Definition all_tt : list tt :=
  [ILLEGAL; EOF; IDENT; LT; LTE; GT; GTE; EQ; NotEQ; COMMA; LPAREN; RPAREN; LBRACKET; RBRACKET; DOT;
   AND; OR; NOT; BETWEEN; IN; SET; REMOVE; ADD; DELETE; PLUS; MINUS].

(* parse functions registered in NewParser / NewUpdateParser *)
Inductive pfn := PIdent | PNot | PGroup | PAction.
Inductive ifn := IInfix | IIndex | IBetween | ICall | IIn.

Fixpoint assoc {A} (k : str) (l : list (str * A)) : option A :=
  match l with [] => None | (k', v) :: t => if str_eqb k k' then Some v else assoc k t end.

Fixpoint assoc_tt {A} (k : tt) (l : list (tt * A)) : option A :=
  match l with [] => None | (k', v) :: t => if tt_beq k k' then Some v else assoc_tt k t end.
