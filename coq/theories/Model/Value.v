(* Attribute values (types.Item with exactly one field set) and items. *)
From Coq Require Import List Bool NArith.
From Coq Require Import Strings.Byte Strings.String.
From Minidyn Require Import Base.Str Base.FMap.
Import ListNotations.

Inductive av :=
| AS (s : str)
| AN (s : str)                 (* numeral as text *)
| AB (b : str)
| ABOOL (b : bool)
| ANULL
| AL (l : list av)
| AM (m : list (str * av))     (* sorted by name, unique names *)
| ASS (l : list str)
| ANS (l : list str)
| ABS (l : list str).

Definition item := fmap av.

(* nested induction principle *)
Section AvInd.
Variable P : av -> Prop.
Hypothesis HS : forall s, P (AS s).
Hypothesis HN : forall s, P (AN s).
Hypothesis HB : forall s, P (AB s).
Hypothesis HBOOL : forall b, P (ABOOL b).
Hypothesis HNULL : P ANULL.
Hypothesis HL : forall l, Forall P l -> P (AL l).
Hypothesis HM : forall m, Forall (fun kv => P (snd kv)) m -> P (AM m).
Hypothesis HSS : forall l, P (ASS l).
Hypothesis HNS : forall l, P (ANS l).
Hypothesis HBS : forall l, P (ABS l).

Fixpoint av_ind' (v : av) : P v :=
  match v with
  | AS s => HS s | AN s => HN s | AB s => HB s | ABOOL b => HBOOL b | ANULL => HNULL
  | AL l => HL l ((fix go (l : list av) : Forall P l :=
                     match l with [] => Forall_nil _ | x :: t => Forall_cons _ (av_ind' x) (go t) end) l)
  | AM m => HM m ((fix go (m : list (str * av)) : Forall (fun kv => P (snd kv)) m :=
                     match m with [] => Forall_nil _ | (k, x) :: t => Forall_cons (k, x) (av_ind' x) (go t) end) m)
  | ASS l => HSS l | ANS l => HNS l | ABS l => HBS l
  end.
End AvInd.

Definition list_eqb {A} (eqb : A -> A -> bool) : list A -> list A -> bool :=
  fix go (a b : list A) : bool :=
    match a, b with
    | [], [] => true
    | x :: a', y :: b' => eqb x y && go a' b'
    | _, _ => false
    end.

Fixpoint av_eqb (a b : av) : bool :=
  match a, b with
  | AS x, AS y | AN x, AN y | AB x, AB y => str_eqb x y
  | ABOOL x, ABOOL y => Bool.eqb x y
  | ANULL, ANULL => true
  | AL x, AL y => list_eqb av_eqb x y
  | AM x, AM y =>
      (fix go (x y : list (str * av)) : bool :=
         match x, y with
         | [], [] => true
         | (k, v) :: x', (k', v') :: y' => str_eqb k k' && av_eqb v v' && go x' y'
         | _, _ => false
         end) x y
  | ASS x, ASS y | ANS x, ANS y | ABS x, ABS y => list_eqb str_eqb x y
  | _, _ => false
  end.

Definition item_eqb (a b : item) : bool := av_eqb (AM a) (AM b).

(* canonical form for comparison: sets sorted (order of a set is not observable) *)
Fixpoint canon (v : av) : av :=
  match v with
  | AL l => AL (map canon l)
  | AM m => AM (map (fun kv => (fst kv, canon (snd kv))) m)
  | ASS l => ASS (sort_strings l)
  | ANS l => ANS (sort_strings l)
  | ABS l => ABS (sort_strings l)
  | _ => v
  end.

Definition canon_item (i : item) : item := map (fun kv => (fst kv, canon (snd kv))) i.

Definition type_name (v : av) : str :=
  match v with
  | AS _ => bs "S" | AN _ => bs "N" | AB _ => bs "B" | ABOOL _ => bs "BOOL" | ANULL => bs "NULL"
  | AL _ => bs "L" | AM _ => bs "M" | ASS _ => bs "SS" | ANS _ => bs "NS" | ABS _ => bs "BS"
  end.
