(* interpreter/language.go: Language.Match and Language.Update. *)
From Coq Require Import List Bool.
From Coq Require Import Strings.Byte Strings.String.
From Minidyn Require Import Base.Str Base.FMap Base.Outcome Base.F64 Model.Value Model.Token Gen.Tables Model.Lexer
  Model.Parser Model.Object Model.Eval Model.Update.
Import ListNotations.

(* Environment.AddAttributes: None = MapToObject failed *)
Fixpoint add_attributes (st : fmap obj) (attrs : item) : option (fmap obj) :=
  match attrs with
  | [] => Some st
  | (k, v) :: rest => match to_obj v with Some o => add_attributes (insert k o st) rest | None => None end
  end.

(* Language.Match; called with the probe alias table (an alias whose key is the empty string, which no validated
   request can carry) it is Language.Check: the expression is parsed and not evaluated *)
Definition lang_match (expr : str) (it vals : item) (names : fmap str) : outcome bool :=
  match parse_cond expr with
  | None => OutOfFuel
  | Some (ast, nerr) =>
      if negb (Nat.eqb nerr 0) then Err Syntax
      else if mem [] names then Ok true
      else match add_attributes [] it with
           | None => Err Unsupported
           | Some st1 =>
               match add_attributes st1 vals with
               | None => Err Unsupported
               | Some st2 =>
                   match eval_conditional {| store := st2; aliases := names |} ast with
                   | Some b => Ok b
                   | None => Err Syntax
                   end
               end
           end
  end.

(* Environment.Apply: every attribute of the environment is written back onto the item; the names of the value
   placeholders are excluded, so an attribute of the item that is literally named like one of them is neither
   overwritten nor removed: it stays as it was *)
Definition apply_env (e : env) (it vals : item) : item :=
  fold_right (fun kv acc => insert (fst kv) (snd kv) acc)
             (flat_map (fun kv => if mem (fst kv) vals then [] else [(fst kv, of_obj (snd kv))]) (store e))
             (filter (fun kv => mem (fst kv) vals) it).

Definition lang_update (expr : str) (it vals : item) (names : fmap str) : outcome item :=
  match parse_upd expr with
  | None => OutOfFuel
  | Some (ast, nerr) =>
      if negb (Nat.eqb nerr 0) then Err Syntax
      else match add_attributes [] it with
           | None => Err Unsupported
           | Some st1 =>
               match add_attributes st1 vals with
               | None => Err Unsupported
               | Some st2 =>
                   match eval_update_stmt {| store := st2; aliases := names |} ast with
                   | Some e' => Ok (apply_env e' it vals)
                   | None => Err Syntax
                   end
               end
           end
  end.
