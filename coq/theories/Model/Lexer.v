(* interpreter/language/lexer.go: NextToken on the unread suffix of the input. *)
From Coq Require Import List Bool NArith.
From Coq Require Import Strings.Byte Strings.String.
From Minidyn Require Import Base.Str Model.Token Gen.Tables.
Import ListNotations.

Definition is_letter (c : byte) : bool :=
  let n := b2n c in ((N.leb 97 n && N.leb n 122) || (N.leb 65 n && N.leb n 90))%N.

Definition is_ident_char (c : byte) : bool :=
  let n := b2n c in
  is_letter c || (N.leb 48 n && N.leb n 57)%N || existsb (N.eqb n) special_chars.

Definition is_lex_space (c : byte) : bool :=
  let n := b2n c in (N.eqb n 32 || N.eqb n 9 || N.eqb n 10 || N.eqb n 13)%N.

Fixpoint assoc_N {A} (k : N) (l : list (N * A)) : option A :=
  match l with [] => None | (k', v) :: t => if N.eqb k k' then Some v else assoc_N k t end.

Definition lookup_ident (s : str) : tt := match assoc s keywords with Some t => t | None => IDENT end.

Fixpoint skip_ws (s : str) : str :=
  match s with c :: t => if is_lex_space c then skip_ws t else s | [] => [] end.

Fixpoint read_ident (s : str) : str * str :=
  match s with
  | c :: t => if is_ident_char c then let '(i, r) := read_ident t in (c :: i, r) else ([], s)
  | [] => ([], [])
  end.

(* Go's string(ch) for a byte: the UTF-8 encoding of the code point U+00ch *)
Definition rune_str (c : byte) : str :=
  let n := b2n c in
  if N.ltb n 128 then [c]
  else match Byte.of_N (192 + n / 64), Byte.of_N (128 + n mod 64) with
       | Some a, Some b => [a; b]
       | _, _ => [c]
       end.

Definition next_token (s0 : str) : token * str :=
  match skip_ws s0 with
  | [] => ({| ty := EOF; lit := [] |}, [])
  | c :: t =>
      let one ty' := ({| ty := ty'; lit := rune_str c |}, t) in
      match assoc_N (b2n c) single_char with
      | Some ty' => one ty'
      | None =>
          match b2n c with
          | 60%N => match t with
                    | d :: t' => if N.eqb (b2n d) 62 then ({| ty := NotEQ; lit := [c; d] |}, t')
                                 else if N.eqb (b2n d) 61 then ({| ty := LTE; lit := [c; d] |}, t') else one LT
                    | [] => one LT
                    end
          | 62%N => match t with
                    | d :: t' => if N.eqb (b2n d) 61 then ({| ty := GTE; lit := [c; d] |}, t') else one GT
                    | [] => one GT
                    end
          | 91%N => one LBRACKET
          | 93%N => one RBRACKET
          | 46%N => one DOT
          | _ => if is_ident_char c
                 then let '(i, r) := read_ident (c :: t) in ({| ty := lookup_ident i; lit := i |}, r)
                 else one ILLEGAL
          end
      end
  end.

(* the whole token stream, for the unit-level correspondence with NewLexer/NextToken *)
Fixpoint lex_all (fuel : nat) (s : str) : list token :=
  match fuel with
  | O => []
  | S f => let '(t, r) := next_token s in
           match ty t with EOF => [t] | _ => t :: lex_all f r end
  end.
