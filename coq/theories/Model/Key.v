(* core/key_schema.go, core/types.go: key schemas and the key string of an item. *)
From Coq Require Import List Bool NArith.
From Coq Require Import Strings.Byte Strings.String.
From Minidyn Require Import Base.Str Base.FMap Model.Value.
Import ListNotations.

Record keyschema := { hashk : str; rangek : str (* [] = no range key *); secondary : bool }.

Inductive keyerr := MissingField | InvalidValue.

(* decimal rendering of a small number, as fmt's %v prints a byte *)
Definition digit_byte (d : N) : byte := match Byte.of_N (48 + d) with Some b => b | None => "0"%byte end.
Definition byte_dec (b : byte) : str :=
  let n := b2n b in
  if N.ltb n 10 then [digit_byte n]
  else if N.ltb n 100 then [digit_byte (n / 10); digit_byte (n mod 10)]
  else [digit_byte (n / 100); digit_byte ((n / 10) mod 10); digit_byte (n mod 10)].

(* fmt.Sprintf("%x", []byte{1,2,255}) = "0102ff": the order of the strings is the order of the byte sequences (fix cf426d8;
   it was the %v rendering "[1 2 255]" before) *)
Definition hex_digit (d : N) : byte :=
  match Byte.of_N (if N.ltb d 10 then 48 + d else 87 + d) with Some b => b | None => "0"%byte end.
Definition byte_hex (b : byte) : str := let n := b2n b in [hex_digit (n / 16); hex_digit (n mod 16)].
Definition render_bytes (b : str) : str := List.concat (map byte_hex b).

(* getGoValue + "%v": the attribute must have the declared type; only S, N, B are key types *)
Definition go_value (v : av) (typ : str) : option str :=
  match v with
  | AS s => if str_eqb typ (bs "S") then Some s else None
  | AN s => if str_eqb typ (bs "N") then Some s else None
  | AB b => if str_eqb typ (bs "B") then Some (render_bytes b) else None
  | _ => None
  end.

Definition def_type (defs : fmap str) (name : str) : str :=
  match lookup name defs with Some t => t | None => [] end.

Definition item_value (it : item) (field typ : str) : keyerr + str :=
  match lookup field it with
  | None => inl MissingField
  | Some v => match go_value v typ with Some s => inr s | None => inl InvalidValue end
  end.

Definition key_value (ks : keyschema) (defs : fmap str) (it : item) : keyerr + str :=
  match item_value it (hashk ks) (def_type defs (hashk ks)) with
  | inl e => inl e
  | inr h =>
      match rangek ks with
      | [] => inr h
      | _ => match item_value it (rangek ks) (def_type defs (rangek ks)) with
             | inl e => inl e
             | inr r => inr (h ++ [dot] ++ r)
             end
      end
  end.

(* keySchema.GetKey: secondary indexes are sparse (a missing field is not an error, the key is "") *)
Definition get_key (ks : keyschema) (defs : fmap str) (it : item) : keyerr + str :=
  match key_value ks defs it with
  | inl MissingField => if secondary ks then inr [] else inl MissingField
  | r => r
  end.

(* keySchema.getKeyItem *)
Definition key_item (ks : keyschema) (it : item) : item :=
  let a := match lookup (hashk ks) it with Some v => insert (hashk ks) v [] | None => [] end in
  match rangek ks with
  | [] => a
  | r => match lookup r it with Some v => insert r v a | None => a end
  end.

(* keySchema.describe *)
Definition describe_ks (ks : keyschema) : list (str * str) :=
  (hashk ks, bs "HASH") :: match rangek ks with [] => [] | r => [(r, bs "RANGE")] end.
