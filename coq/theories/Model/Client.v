(* aws-v1/client and aws-v2/client: the two adapters over core.Table, as one step function
   parameterised by the SDK flavour and the language interpreter. *)
From Coq Require Import List Bool Arith NArith.
From Coq Require Import Strings.Byte Strings.String.
From Minidyn Require Import Base.Str Base.FMap Base.Outcome Model.Value Model.Key Model.Index Model.Table Model.Token Gen.Tables
  Model.Lexer Model.Parser Model.Object Model.Eval.
Import ListNotations.

Definition tbl := Table.table.

Inductive sdk := V1 | V2.

Record client := {
  c_tables : fmap tbl;
  c_billing : fmap bool;           (* table -> billing mode is PAY_PER_REQUEST (Table.BillingMode) *)
  c_failure : option failure;      (* forceFailureErr *)
  c_native : bool;                 (* useNativeInterpreter (tables always carry the same flag) *)
  c_reg : registry                 (* the native interpreter shared by the client and all its tables *)
}.

Definition new_client : client :=
  {| c_tables := []; c_billing := []; c_failure := None; c_native := false; c_reg := empty_registry |}.

Definition ctx_of (c : client) : ictx := {| use_native := c_native c; reg := c_reg c |}.

Record index_def := { id_name : str; id_hash : option str; id_range : option str; id_throughput : bool }.

Record create_input := {
  ct_table : str;
  ct_hash : option str;
  ct_range : option str;
  ct_defs : list (str * str);
  ct_pay_per_request : bool;
  ct_throughput : bool;
  ct_gsi : list index_def;
  ct_lsi : list index_def
}.

Inductive wreq := WPut (i : item) | WDelete (k : item) | WNeither | WBoth (i k : item).

Inductive op :=
| ONewClient
| OCreateTable (ct : create_input)
| OAddTable (table hash range : str)
| OAddIndex (table index hash range : str)
| ODeleteTable (table : str)
| ODescribeTable (table : str)
| OUpdateTable (table : str) (defs : list (str * str)) (create : option index_def) (delete : option str)
| OClearTable (table : str)
| OPut (table : str) (it : item) (cond : option str) (names : fmap str) (vals : item) (return_old : bool)
| OGet (table : str) (key : item) (names : fmap str) (proj : str)
| OUpdate (table : str) (key : item) (expr : str) (cond : option str) (names : fmap str) (vals : item) (all_old : bool)
| ODelete (table : str) (key : item) (cond : option str) (names : fmap str) (vals : item) (return_old : bool)
| OQuery (table : str) (index : option str) (keycond filter : option str) (names : fmap str) (vals : item)
         (limit : nat) (esk : item) (forward : option bool) (proj : str)
| OScan (table : str) (index : option str) (filter : option str) (names : fmap str) (vals : item) (limit : nat) (esk : item) (proj : str)
| OBatchWrite (reqs : fmap (list wreq))
| OBatchGet (reqs : fmap (list item)) (opts : fmap (fmap str * str))   (* per table: keys; names and projection *)
| OTransact
| OEmulateFailure (cond : str)
| OActivateForce
| ODeactivateForce
| OActivateNative
| OSetInterpreter
| OAddMatcher (table : str) (k : ekind) (expr : str) (id : nat) (verdict : bool)
| OAddUpdater (table expr : str) (id : nat) (set : item).

Record desc := {
  d_name : str; d_count : nat; d_schema : list (str * str);
  d_gsi : list (str * nat * list (str * str));
  d_lsi : list (str * nat * list (str * str))
}.

Inductive res := ROk | RErr (e : errclass) | RPanic (p : panic) | RFuel.

Inductive payload :=
| PNone
| PItem (i : item)
| PCondItem (i : item)
| PItems (items : list item) (count : nat) (lek : item)
| PDesc (d : desc)
| PBatchWrite (unproc : fmap (list wreq))
| PAlt (errs : list errclass)      (* an error whose class depends on Go's map iteration order: any of these *)
| PBatchGet (resp : fmap (list item)) (unproc : fmap (list item)).

Record obs := { o_res : res; o_pay : payload; o_fired : list nat }.

Definition ok_obs (p : payload) (f : list nat) : obs := {| o_res := ROk; o_pay := p; o_fired := f |}.
Definition err_obs (e : errclass) : obs := {| o_res := RErr e; o_pay := PNone; o_fired := [] |}.
Definition panic_obs (p : panic) : obs := {| o_res := RPanic p; o_pay := PNone; o_fired := [] |}.
Definition fuel_obs : obs := {| o_res := RFuel; o_pay := PNone; o_fired := [] |}.

(* ---------- SDK mappers on attribute values ---------- *)

(* aws-v2/client/mapper.go mapTypesToDynamoItem: emptiness tests make empty B/BS/NS/SS/L/M come back as NULL *)
Fixpoint v2_out (v : av) : av :=
  match v with
  | AB [] => ANULL
  | ABS [] => ANULL
  | ANS [] => ANULL
  | ASS [] => ANULL
  | AL [] => ANULL
  | AM [] => ANULL
  | AL l => AL (map v2_out l)
  | AM m => AM (map (fun kv => (fst kv, v2_out (snd kv))) m)
  | _ => v
  end.

Definition out_item (s : sdk) (i : item) : item :=
  match s with V1 => i | V2 => map (fun kv => (fst kv, v2_out (snd kv))) i end.

(* ---------- validateExpressionAttributes ---------- *)

Definition is_alnum_us (b : byte) : bool :=
  let n := b2n b in
  ((N.leb 97 n && N.leb n 122) || (N.leb 65 n && N.leb n 90) || (N.leb 48 n && N.leb n 57) || N.eqb n 95)%N.

(* ^#[A-Za-z0-9_]+$ and ^:[A-Za-z0-9_]+$ *)
Definition placeholder_ok (prefix : byte) (s : str) : bool :=
  match s with
  | c :: (_ :: _) as rest => Byte.eqb c prefix && forallb is_alnum_us rest
  | _ => false
  end.

Fixpoint trim_left (s : str) : str :=
  match s with c :: t => if is_space c then trim_left t else s | [] => [] end.
Definition trim (s : str) : str := rev (trim_left (rev (trim_left s))).

Definition opt_str (o : option str) : str := match o with Some s => s | None => [] end.

(* the tokens of an expression, as PlaceholdersIn / ReservedWordIn of token.go walk them *)
Definition tokens_of (s : str) : list token := lex_all (S (List.length s)) s.

(* a #name used in the expressions that ExpressionAttributeNames does not define (fix 1740da6) *)
Definition undefined_name_in (g : str) (names : list str) : bool :=
  existsb (fun t => tt_beq (ty t) IDENT && match lit t with c :: _ => Byte.eqb c "#"%byte | [] => false end &&
                    negb (mem_str (lit t) names)) (tokens_of g).

(* a reserved word in a bare-name position: an identifier token that is not followed by "(" (fix fb4521f) *)
Fixpoint reserved_in_tokens (l : list token) : bool :=
  match l with
  | a :: ((b :: _) as rest) =>
      (tt_beq (ty a) IDENT && negb (tt_beq (ty b) LPAREN) && is_reserved (lit a)) || reserved_in_tokens rest
  | _ => false
  end.
Definition reserved_word_in (e : str) : bool := reserved_in_tokens (tokens_of e).

Definition validate_expr_attrs (names : list str) (vals : list str) (exprs : list str) : bool :=
  let g := trim (join (bs " ") exprs) in
  match g, names, vals with
  | [], [], [] => true
  | _, _, _ =>
      forallb (fun n => contains_sub g n) names && forallb (placeholder_ok "#"%byte) names &&
      forallb (fun n => contains_sub g n) vals && forallb (placeholder_ok ":"%byte) vals &&
      negb (undefined_name_in g names) && negb (existsb reserved_word_in exprs)
  end.

Section Step.
Variable lang_match : str -> item -> item -> fmap str -> outcome bool.
Variable lang_update : str -> item -> item -> fmap str -> outcome item.
Variable flavour : sdk.

Definition failure_err (f : failure) : errclass :=
  match f with FInternal => InternalServer | FDeprecated => ForcedFailure end.

Definition set_tables (c : client) (ts : fmap tbl) : client :=
  {| c_tables := ts; c_billing := c_billing c; c_failure := c_failure c; c_native := c_native c; c_reg := c_reg c |}.
Definition set_table (c : client) (t : tbl) : client := set_tables c (insert (t_name t) t (c_tables c)).

(* SDK v1 input.Validate(): table names have at least 3 characters *)
Definition v1_name_ok (name : str) : bool :=
  match flavour with V1 => Nat.leb 3 (List.length name) | V2 => true end.

(* ---------- table descriptions ---------- *)
Definition describe (t : tbl) : desc :=
  let of_typ typ := flat_map (fun ni => match ix_typ (snd ni), typ with
                                        | IxGlobal, IxGlobal | IxLocal, IxLocal =>
                                            [(fst ni, ix_count (snd ni), describe_ks (ix_ks (snd ni)))]
                                        | _, _ => [] end) (t_indexes t) in
  {| d_name := t_name t; d_count := List.length (t_sorted t); d_schema := describe_ks (t_ks t);
     d_gsi := of_typ IxGlobal; d_lsi := of_typ IxLocal |}.

(* ---------- table management ---------- *)

(* parseKeySchema + validateAttributeDefinition *)
(* a key attribute is declared S, N or B (fix d92fdf4): the key strings are only defined for these types *)
Definition key_typed (defs : fmap str) (k : str) : bool :=
  match lookup k defs with
  | Some ty => str_eqb ty (bs "S") || str_eqb ty (bs "N") || str_eqb ty (bs "B")
  | None => false
  end.

Definition check_schema (defs : fmap str) (h r : option str) : option (str * str) :=
  match h with
  | None | Some [] => None
  | Some hk =>
      if mem hk defs then
        match r with
        | None | Some [] => if key_typed defs hk then Some (hk, []) else None
        | Some rk => if mem rk defs then (if key_typed defs hk && key_typed defs rk then Some (hk, rk) else None) else None
        end
      else None
  end.

(* buildGSI + addGlobalIndex (backfill of the existing items) *)
Definition add_global_index (t : tbl) (ppr : bool) (d : index_def) : option tbl :=
  if negb ppr && negb (id_throughput d) then None
  else match check_schema (t_defs t) (id_hash d) (id_range d) with
       | None => None
       | Some (h, r) =>
           let ix := fold_left (fun ix key =>
                        match lookup key (t_data t) with
                        | Some it => match ix_put (t_defs t) key it ix with inr ix' => ix' | inl _ => ix end
                        | None => ix
                        end) (t_sorted t) (new_index IxGlobal h r) in
           Some (with_indexes t (insert (id_name d) ix (t_indexes t)))
       end.

Definition add_local_index (t : tbl) (d : index_def) : option tbl :=
  match check_schema (t_defs t) (id_hash d) (id_range d) with
  | None => None
  | Some (h, r) => Some (with_indexes t (insert (id_name d) (new_index IxLocal h r) (t_indexes t)))
  end.

Fixpoint fold_opt {A B} (f : A -> B -> option A) (l : list B) (a : A) : option A :=
  match l with [] => Some a | x :: t => match f a x with Some a' => fold_opt f t a' | None => None end end.

Definition set_defs (defs : fmap str) (l : list (str * str)) : fmap str :=
  fold_left (fun m kv => insert (fst kv) (snd kv) m) l defs.

(* SDK v1 Validate(): the table name and every index name of the request have at least 3 characters *)
Definition ct_names_ok (ct : create_input) : bool :=
  v1_name_ok (ct_table ct) && forallb (fun d => v1_name_ok (id_name d)) (ct_gsi ct ++ ct_lsi ct).

Definition create_table (c : client) (ct : create_input) : client * obs :=
  if negb (ct_names_ok ct) then (c, err_obs InvalidParam)
  else if mem (ct_table ct) (c_tables c) then (c, err_obs InUse)
  else
    let defs := set_defs [] (ct_defs ct) in
    match check_schema defs (ct_hash ct) (ct_range ct) with
    | None => (c, err_obs Validation)
    | Some (h, r) =>
        if negb (ct_pay_per_request ct) && negb (ct_throughput ct) then (c, err_obs Validation)
        else
          let t0 := {| t_name := ct_table ct; t_ks := {| hashk := h; rangek := r; secondary := false |};
                       t_defs := defs; t_sorted := []; t_data := []; t_indexes := [] |} in
          match fold_opt (fun t d => add_global_index t (ct_pay_per_request ct) d) (ct_gsi ct) t0 with
          | None => (c, err_obs Validation)
          | Some t1 =>
              match fold_opt add_local_index (ct_lsi ct) t1 with
              | None => (c, err_obs Validation)
              | Some t2 =>
                  ({| c_tables := insert (ct_table ct) t2 (c_tables c);
                      c_billing := insert (ct_table ct) (ct_pay_per_request ct) (c_billing c);
                      c_failure := c_failure c; c_native := c_native c; c_reg := c_reg c |},
                   ok_obs (PDesc (describe t2)) [])
              end
          end
    end.

Definition add_table_input (table hash range : str) : create_input :=
  {| ct_table := table; ct_hash := Some hash; ct_range := match range with [] => None | _ => Some range end;
     ct_defs := (hash, bs "S") :: match range with [] => [] | _ => [(range, bs "S")] end;
     ct_pay_per_request := true; ct_throughput := true; ct_gsi := []; ct_lsi := [] |}.

(* Table.CheckAttributeDefinition: the type of an attribute that is a key of the table or of one of its indexes
   can not be changed *)
Definition used_key_attrs (t : tbl) : list str :=
  hashk (t_ks t) :: rangek (t_ks t) :: flat_map (fun ni => [hashk (ix_ks (snd ni)); rangek (ix_ks (snd ni))]) (t_indexes t).

Definition defs_ok (t : tbl) (defs : list (str * str)) : bool :=
  forallb (fun kv => match lookup (fst kv) (t_defs t) with
                     | Some ty => negb (mem_str (fst kv) (used_key_attrs t)) || str_eqb ty (snd kv)
                     | None => true
                     end) defs.

Definition update_table (c : client) (table : str) (defs : list (str * str)) (create : option index_def)
    (delete : option str) : client * obs :=
  (* SDK v1 Validate() comes first: table name, name of the index to create, name of the index to delete *)
  if negb (v1_name_ok table && match create with Some d => v1_name_ok (id_name d) | None => true end
                            && match delete with Some n => v1_name_ok n | None => true end)
  then (c, err_obs InvalidParam)
  else match lookup table (c_tables c) with
  | None => (c, err_obs NotFound)
  | Some t =>
      if negb (defs_ok t defs) then (c, err_obs Validation) else
      let t1 := {| t_name := t_name t; t_ks := t_ks t; t_defs := set_defs (t_defs t) defs;
                   t_sorted := t_sorted t; t_data := t_data t; t_indexes := t_indexes t |} in
      let ppr := match lookup table (c_billing c) with Some b => b | None => false end in
      let r1 : tbl * option errclass :=
        match create with
        | None => (t1, None)
        | Some d =>
            match add_global_index t1 ppr d with
            | Some t2 => (t2, None)
            | None => (t1, Some Validation)
            end
        end in
      match r1 with
      | (t2, Some e) => (set_table c t2, err_obs e)
      | (t2, None) =>
          match delete with
          | None => (set_table c t2, ok_obs (PDesc (describe t2)) [])
          | Some n =>
              if mem n (t_indexes t2)
              then let t3 := with_indexes t2 (remove n (t_indexes t2)) in
                   (set_table c t3, ok_obs (PDesc (describe t3)) [])
              else (set_table c t2, err_obs NotFound)
          end
      end
  end.

(* ---------- data operations ---------- *)

Definition preamble (c : client) (table : str) (names : fmap str) (vals : item) (exprs : list str)
  : errclass + tbl :=
  (* an emulated failure takes precedence over the SDK v1 request validation (fix 1055435) *)
  match c_failure c with
  | Some f => inl (failure_err f)
  | None =>
      if negb (v1_name_ok table) then inl InvalidParam else
      if validate_expr_attrs (keys names) (keys vals) exprs then
        match lookup table (c_tables c) with
        | Some t => inr t
        | None => inl NotFound
        end
      else inl Validation
  end.

Definition put_item (c : client) (table : str) (it : item) (cond : option str) (names : fmap str) (vals : item)
    (return_old : bool) : client * obs :=
  match preamble c table names vals [opt_str cond] with
  | inl e => (c, err_obs e)
  | inr t =>
      match t_put lang_match (ctx_of c) t it cond names vals with
      | (t', WOk old f) =>
          (* the replaced item, and only with ReturnValues = ALL_OLD (fix e014a0c) *)
          (set_table c t', ok_obs (match old with Some i => if return_old then PItem (out_item flavour i) else PNone | None => PNone end) f)
      | (_, WCondFailed old f) =>
          (* the harness always asks for ReturnValuesOnConditionCheckFailure = ALL_OLD on PutItem / DeleteItem (fix 1b96490) *)
          (c, {| o_res := RErr CondFailed;
                 o_pay := match flavour with V2 => PCondItem (out_item V2 old) | V1 => PNone end;
                 o_fired := f |})
      | (_, WErr e) => (c, err_obs e)
      | (_, WPanic p) => (c, panic_obs p)
      | (_, WFuel) => (c, fuel_obs)
      end
  end.

Definition get_item_op (c : client) (table : str) (key : item) (names : fmap str) (proj : str) : client * obs :=
  match preamble c table names [] [proj] with
  | inl e => (c, err_obs e)
  | inr t =>
      match get_key (t_ks t) (t_defs t) key with
      | inl _ => (c, err_obs Validation)
      | inr k => (c, ok_obs (PItem (out_item flavour (get_item t k))) [])
      end
  end.

Definition update_item (c : client) (table : str) (key : item) (expr : str) (cond : option str)
    (names : fmap str) (vals : item) (all_old : bool) : client * obs :=
  match preamble c table names vals [expr; opt_str cond] with
  | inl e => (c, err_obs e)
  | inr t =>
      match t_update lang_match lang_update (ctx_of c) t key expr cond names vals with
      | (t', WOk it f) => (set_table c t', ok_obs (PItem (out_item flavour (match it with Some i => i | None => [] end))) f)
      | (_, WCondFailed old f) =>
          (c, {| o_res := RErr CondFailed;
                 o_pay := match flavour with
                          | V2 => PCondItem (if all_old then out_item V2 old else [])
                          | V1 => PNone
                          end;
                 o_fired := f |})
      | (_, WErr Syntax) => (c, err_obs Validation)
      | (_, WErr e) => (c, err_obs e)
      | (_, WPanic p) => (c, panic_obs p)
      | (_, WFuel) => (c, fuel_obs)
      end
  end.

Definition delete_item (c : client) (table : str) (key : item) (cond : option str) (names : fmap str)
    (vals : item) (return_old : bool) : client * obs :=
  match preamble c table names vals [opt_str cond] with
  | inl e => (c, err_obs e)
  | inr t =>
      match t_delete lang_match (ctx_of c) t key cond names vals with
      | (t', WOk old f) =>
          (set_table c t',
           ok_obs (if return_old
                   then match old with
                        | Some i => PItem (out_item flavour i)
                        | None => PNone             (* nothing deleted: no Attributes at all (fix 9264382) *)
                        end
                   else PNone) f)
      | (_, WCondFailed old f) =>
          (* the harness always asks for ReturnValuesOnConditionCheckFailure = ALL_OLD on PutItem / DeleteItem (fix 1b96490) *)
          (c, {| o_res := RErr CondFailed;
                 o_pay := match flavour with V2 => PCondItem (out_item V2 old) | V1 => PNone end;
                 o_fired := f |})
      | (_, WErr e) => (c, err_obs e)
      | (_, WPanic p) => (c, panic_obs p)
      | (_, WFuel) => (c, fuel_obs)
      end
  end.

(* Table.checkExpressions (fix 4eb734b): the key condition and the filter are parsed before the search, so a malformed
   expression is rejected even when no item is evaluated.  The parse-only call of the interpreter is the call with the
   probe alias table, which no validated request can carry (its key is the empty string). *)
Definition probe_names : fmap str := [([], [])].

Definition check_expr (e : str) : outcome unit :=
  match e with
  | [] => Ok Datatypes.tt
  | _ => match lang_match e [] [] probe_names with
         | Ok _ => Ok Datatypes.tt
         | Err er => lang_panic er
         | Panic p => Panic p
         | OutOfFuel => OutOfFuel
         end
  end.

(* with the native interpreter on, only an expression that has a registered matcher is exempt (fix 03e87dc) *)
Definition check_expressions (c : client) (tname : str) (q : query) : outcome unit :=
  let exempt (k : ekind) (e : str) : bool :=
    c_native c && match lookup (reg_key tname e) (reg_matchers (c_reg c) k) with Some _ => true | None => false end in
  obind (if exempt KKey (q_keycond q) then Ok Datatypes.tt else check_expr (q_keycond q))
        (fun _ => if exempt KFilter (q_filter q) then Ok Datatypes.tt else check_expr (q_filter q)).

(* Table.ValidateStartKey (fix 9111e82): a start key that lacks a key attribute of the table, or carries a key attribute
   of the table or of the index that is read with the wrong type, is rejected (it used to be dropped silently) *)
Definition valid_start_key (t : tbl) (oix : option str) (esk : item) : bool :=
  match esk with
  | [] => true
  | _ => match get_key (t_ks t) (t_defs t) esk with
         | inl _ => false
         | inr _ => match oix with
                    | Some n => match lookup n (t_indexes t) with
                                | Some ix => match get_key (ix_ks ix) (t_defs t) esk with inl _ => false | inr _ => true end
                                | None => true
                                end
                    | None => true
                    end
         end
  end.

Definition run_search (c : client) (t : tbl) (q : query) : client * obs :=
  let go (q' : query) : client * obs :=
    if negb (valid_start_key t (q_index q') (q_esk q')) then (c, err_obs Validation) else
    match check_expressions c (t_name t) q with
    | Err e => (c, err_obs e)
    | Panic p => (c, panic_obs p)
    | OutOfFuel => (c, fuel_obs)
    | Ok _ =>
        match search_data lang_match (ctx_of c) t q' with
        | Ok (items, lek, f) =>
            (c, ok_obs (PItems (map (out_item flavour) items) (List.length items) (out_item flavour lek)) f)
        | Err e => (c, err_obs e)
        | Panic p => (c, panic_obs p)
        | OutOfFuel => (c, fuel_obs)
        end
    end in
  match q_index q with
  | Some n => if negb (mem n (t_indexes t)) && negb (match n with [] => true | _ => false end)
              then (c, err_obs Validation)
              else go {| q_index := match n with [] => None | _ => Some n end; q_values := q_values q; q_names := q_names q;
                         q_limit := q_limit q; q_esk := q_esk q; q_keycond := q_keycond q; q_filter := q_filter q;
                         q_cond := q_cond q; q_forward := q_forward q; q_scan := q_scan q |}
  | None => go q
  end.

Definition query_op (c : client) (table : str) (index : option str) (keycond filter : option str)
    (names : fmap str) (vals : item) (limit : nat) (esk : item) (forward : option bool) (proj : str) : client * obs :=
  match (match flavour with V1 => true | V2 => true end, c_failure c) with
  | (_, Some f) => (c, err_obs (failure_err f))
  | (_, None) =>
      if validate_expr_attrs (keys names) (keys vals) [opt_str keycond; opt_str filter; proj] then
        match lookup table (c_tables c) with
        | None => (c, err_obs NotFound)
        | Some t =>
            run_search c t {| q_index := index; q_values := vals; q_names := names; q_limit := limit; q_esk := esk;
                              q_keycond := opt_str keycond; q_filter := opt_str filter; q_cond := None;
                              q_forward := match forward with Some b => b | None => true end; q_scan := false |}
        end
      else (c, err_obs Validation)
  end.

Definition scan_op (c : client) (table : str) (index : option str) (filter : option str)
    (names : fmap str) (vals : item) (limit : nat) (esk : item) (proj : str) : client * obs :=
  match c_failure c with
  | Some f => (c, err_obs (failure_err f))
  | None =>
      if validate_expr_attrs (keys names) (keys vals) [proj; opt_str filter] then
        match lookup table (c_tables c) with
        | None => (c, err_obs NotFound)
        | Some t =>
            run_search c t {| q_index := index; q_values := vals; q_names := names; q_limit := limit; q_esk := esk;
                              q_keycond := []; q_filter := opt_str filter; q_cond := None;
                              q_forward := true; q_scan := true |}
        end
      else (c, err_obs Validation)
  end.

(* ---------- batch operations ---------- *)

Definition wreq_ok (r : wreq) : bool := match r with WPut _ | WDelete _ => true | _ => false end.

(* batchRequestsLimit, read from the sources by the translator (both clients; see Proofs/Restrictions.v) *)
Definition batch_limit : nat := batch_limit_v2.

(* one request of a batch write: (client, None) = applied, (client, Some None) = unprocessed, Some (Some e) = abort *)
Definition batch_write_one (c : client) (table : str) (r : wreq) : client * option (option obs) :=
  let '(c', o) :=
    match r with
    | WPut i => put_item c table i None [] [] false
    | WDelete k => delete_item c table k None [] [] false
    | WBoth i _ => put_item c table i None [] [] false
    | WNeither =>
        (* an empty request has nothing to apply; under an emulated failure it fails like every other request of the
           batch (the failure is looked at before the requests are, fix aae4d34) *)
        match c_failure c with Some f => (c, err_obs (failure_err f)) | None => (c, ok_obs PNone []) end
    end in
  match o_res o with
  | ROk => (c', None)
  | RErr InternalServer => (c', Some None)
  | _ => (c', Some (Some o))
  end.

Fixpoint batch_write_reqs (c : client) (table : str) (rs : list wreq) (un : list wreq)
  : client * list wreq * option obs :=
  match rs with
  | [] => (c, un, None)
  | r :: rest =>
      match batch_write_one c table r with
      | (c', None) => batch_write_reqs c' table rest un
      | (c', Some None) => batch_write_reqs c' table rest (un ++ [r])
      | (c', Some (Some o)) => (c', un, Some o)
      end
  end.

Fixpoint batch_write_tables (c : client) (ts : list (str * list wreq)) (un : fmap (list wreq))
  : client * fmap (list wreq) * option obs :=
  match ts with
  | [] => (c, un, None)
  | (table, rs) :: rest =>
      match batch_write_reqs c table rs [] with
      | (c', u, None) => batch_write_tables c' rest (match u with [] => un | _ => insert table u un end)
      | (c', u, Some o) => (c', un, Some o)
      end
  end.

(* validateBatchWriteRequests: the first invalid request of every table (tables are visited in map order) *)
Definition prevalidate_table (c : client) (tr : str * list wreq) : list errclass :=
  match lookup (fst tr) (c_tables c) with
  | None => [NotFound]
  | Some t =>
      if forallb (fun r => match r with
                           | WPut i | WBoth i _ =>
                               match get_key (t_ks t) (t_defs t) i with
                               | inl _ => false
                               | inr _ => validate_index_keys (t_defs t) (t_indexes t) i
                               end
                           | WDelete k => match get_key (t_ks t) (t_defs t) k with inl _ => false | inr _ => true end
                           | WNeither => true
                           end) (snd tr)
      then [] else [Validation]
  end.

Definition forced_blocks (c : client) : bool :=
  match c_failure c with Some FDeprecated => true | _ => false end.

Definition batch_write_core (c : client) (reqs : fmap (list wreq)) : client * obs :=
  let all := flat_map snd reqs in
  (* a failure that does not turn requests into unprocessed ones fails the call, whatever the batch holds *)
  if forced_blocks c then (c, err_obs ForcedFailure) else
  (* under an emulated failure the shape of the batch is not looked at (fix 142a901) *)
  if (match c_failure c with Some _ => false | None => true end) && negb (forallb wreq_ok all) then (c, err_obs Validation)
  else if (match c_failure c with Some _ => false | None => true end) && Nat.ltb batch_limit (List.length all) then (c, err_obs Validation)
  else match (match c_failure c with Some _ => [] | None => flat_map (prevalidate_table c) reqs end) with
  | e :: es => (c, {| o_res := RErr e; o_pay := PAlt (e :: es); o_fired := [] |})
  | [] =>
       match batch_write_tables c reqs [] with
       | (c', un, None) => (c', ok_obs (PBatchWrite un) [])
       | (c', _, Some o) => (c', {| o_res := o_res o; o_pay := PNone; o_fired := [] |})
       end
  end.

(* SDK v1 Validate(): RequestItems names at least one table (looked at after the emulated failure, fix 142a901) *)
Definition v1_empty_batch (c : client) (reqs : fmap (list wreq)) : bool :=
  match flavour, c_failure c, reqs with V1, None, [] => true | _, _, _ => false end.

Definition batch_write (c : client) (reqs : fmap (list wreq)) : client * obs :=
  if v1_empty_batch c reqs then (c, err_obs InvalidParam) else batch_write_core c reqs.

Definition batch_get (c : client) (reqs : fmap (list item)) (opts : fmap (fmap str * str)) : client * obs :=
  match flavour with
  | V1 => (c, panic_obs RuntimePanic)          (* the v1 client does not implement BatchGetItem *)
  | V2 =>
      match c_failure c with
      | Some f => (c, err_obs (failure_err f))
      | None =>
          (* the names and the projection of every table entry are validated before any key is read (fix 2aa9a7b) *)
          (* ... and so is the existence of every table (fix 91e5142); with several offending tables the error that is
             reported depends on Go's map iteration order *)
          match flat_map (fun tk : str * list item =>
                            let '(names, proj) := match lookup (fst tk) opts with Some o => o | None => ([], []) end in
                            if negb (validate_expr_attrs (keys names) [] [proj]) then [Validation]
                            else if mem (fst tk) (c_tables c) then [] else [NotFound]) reqs with
          | e :: es => (c, {| o_res := RErr e; o_pay := PAlt (e :: es); o_fired := [] |})
          | [] =>
          let per_table (tk : str * list item) :=
            let '(names, proj) := match lookup (fst tk) opts with Some o => o | None => ([], []) end in
            let got := map (fun k => (k, snd (get_item_op c (fst tk) k names proj))) (snd tk) in
            let found := flat_map (fun ko => match o_res (snd ko), o_pay (snd ko) with
                                             | ROk, PItem ((_ :: _) as i) => [i] | _, _ => [] end) got in
            let missing := flat_map (fun ko => match o_res (snd ko), o_pay (snd ko) with
                                               | ROk, PItem (_ :: _) => [] | _, _ => [fst ko] end) got in
            (fst tk, found, missing) in
          let rs := map per_table reqs in
          (c, ok_obs (PBatchGet (map (fun r => (fst (fst r), snd (fst r))) rs)
                                (flat_map (fun r => match snd r with [] => [] | m => [(fst (fst r), m)] end) rs)) [])
          end
      end
  end.

(* ---------- the step function ---------- *)

Definition step (c : client) (o : op) : client * obs :=
  match o with
  | ONewClient => (new_client, ok_obs PNone [])
  | OCreateTable ct => create_table c ct
  | OAddTable t h r =>
      let '(c', ob) := create_table c (add_table_input t h r) in
      (c', {| o_res := o_res ob; o_pay := PNone; o_fired := [] |})
  | OAddIndex t i h r =>
      let '(c', ob) := update_table c t ((h, bs "S") :: match r with [] => [] | _ => [(r, bs "S")] end)
                         (Some {| id_name := i; id_hash := Some h;
                                  id_range := match r with [] => None | _ => Some r end;
                                  id_throughput := false |}) None in
      (c', {| o_res := o_res ob; o_pay := PNone; o_fired := [] |})
  | ODeleteTable t =>
      if negb (v1_name_ok t) then (c, err_obs InvalidParam)
      else match lookup t (c_tables c) with
           | None => (c, err_obs NotFound)
           | Some tb =>
               ({| c_tables := remove t (c_tables c); c_billing := remove t (c_billing c);
                   c_failure := c_failure c; c_native := c_native c; c_reg := c_reg c |},
                ok_obs (PDesc (describe tb)) [])
           end
  | ODescribeTable t =>
      match lookup t (c_tables c) with
      | None => (c, err_obs NotFound)
      | Some tb => (c, ok_obs (PDesc (describe tb)) [])
      end
  | OUpdateTable t defs create delete => update_table c t defs create delete
  | OClearTable t =>
      match lookup t (c_tables c) with
      | None => (c, err_obs NotFound)
      | Some tb => (set_table c (t_clear tb), ok_obs PNone [])
      end
  | OPut t i cond names vals ro => put_item c t i cond names vals ro
  | OGet t k names proj => get_item_op c t k names proj
  | OUpdate t k e cond names vals ao => update_item c t k e cond names vals ao
  | ODelete t k cond names vals ro => delete_item c t k cond names vals ro
  | OQuery t ix kc fl names vals lim esk fw proj => query_op c t ix kc fl names vals lim esk fw proj
  | OScan t ix fl names vals lim esk proj => scan_op c t ix fl names vals lim esk proj
  | OBatchWrite reqs => batch_write c reqs
  | OBatchGet reqs opts => batch_get c reqs opts
  | OTransact =>
      (* a stub that writes nothing; under an emulated failure it answers the configured error (fix f8b41cf) *)
      match c_failure c with
      | Some f => (c, err_obs (failure_err f))
      | None => (c, ok_obs PNone [])
      end
  | OEmulateFailure cond =>
      ({| c_tables := c_tables c; c_billing := c_billing c;
          c_failure := match assoc cond (match flavour with V1 => emulating_errors_v1 | V2 => emulating_errors_v2 end) with
                       | Some f => f
                       | None => None
                       end;
          c_native := c_native c; c_reg := c_reg c |}, ok_obs PNone [])
  | OActivateForce =>
      ({| c_tables := c_tables c; c_billing := c_billing c; c_failure := Some FDeprecated;
          c_native := c_native c; c_reg := c_reg c |}, ok_obs PNone [])
  | ODeactivateForce =>
      ({| c_tables := c_tables c; c_billing := c_billing c; c_failure := None;
          c_native := c_native c; c_reg := c_reg c |}, ok_obs PNone [])
  | OActivateNative =>
      ({| c_tables := c_tables c; c_billing := c_billing c; c_failure := c_failure c;
          c_native := true; c_reg := c_reg c |}, ok_obs PNone [])
  | OSetInterpreter =>
      ({| c_tables := c_tables c; c_billing := c_billing c; c_failure := c_failure c;
          c_native := c_native c; c_reg := empty_registry |}, ok_obs PNone [])
  | OAddMatcher t k e id v =>
      ({| c_tables := c_tables c; c_billing := c_billing c; c_failure := c_failure c;
          c_native := c_native c; c_reg := add_matcher (c_reg c) t k e id v |}, ok_obs PNone [])
  | OAddUpdater t e id set =>
      ({| c_tables := c_tables c; c_billing := c_billing c; c_failure := c_failure c;
          c_native := c_native c; c_reg := add_updater (c_reg c) t e id set |}, ok_obs PNone [])
  end.

(* several clients, addressed by name; an unknown name is a fresh client *)
Definition world := fmap client.

Definition wstep (w : world) (co : str * op) : world * obs :=
  let c := match lookup (fst co) w with Some c => c | None => new_client end in
  let '(c', o) := step c (snd co) in
  (insert (fst co) c' w, o).

Fixpoint run (w : world) (ops : list (str * op)) : world * list obs :=
  match ops with
  | [] => (w, [])
  | o :: rest =>
      let '(w1, ob) := wstep w o in
      let '(w2, obs) := run w1 rest in
      (w2, ob :: obs)
  end.

End Step.
