(* Non-vacuity of the C04 theorems: a concrete reachable table (built by the model from a history, with the model's own
   expression language) meets every premise of pagination_complete_base / resume_complete_base, and the conclusion,
   evaluated on it, is a non-trivial three-page walk. *)
From Coq Require Import List Bool Arith Lia.
From Coq Require Import Strings.Byte Strings.String.
From Minidyn Require Import Base.Str Base.FMap Base.Outcome Model.Value Model.Key Model.Index Model.Table Model.Client
  Model.Language.
From Minidyn Require Import Proofs.TableInv Proofs.ClientInv Proofs.KeyInv Proofs.Pagination.
Import ListNotations.

Definition it (h : string) (x : string) : item := [(bs "h", AS (bs h)); (bs "x", AN (bs x))].

(* one item has the empty string as its key: the case that used to loop (fixed: 8ce83c4) *)
Definition w_ops : list (str * op) :=
  [ (bs "c", OAddTable (bs "tbl") (bs "h") []);
    (bs "c", OPut (bs "tbl") (it "" "1") None [] [] false);
    (bs "c", OPut (bs "tbl") (it "b" "3") None [] [] false);
    (bs "c", OPut (bs "tbl") (it "a" "2") None [] [] false);
    (bs "c", OPut (bs "tbl") (it "c" "4") None [] [] false);
    (bs "c", ODelete (bs "tbl") [(bs "h", AS (bs "b"))] None [] [] false) ].

Definition w_client : client :=
  match lookup (bs "c") (fst (run lang_match lang_update V2 [] w_ops)) with Some c => c | None => new_client end.
Definition w_table : table :=
  match lookup (bs "tbl") (c_tables w_client) with Some t => t | None =>
    {| t_name := []; t_ks := {| hashk := []; rangek := []; secondary := false |}; t_defs := []; t_sorted := []; t_data := []; t_indexes := [] |} end.

(* a scan with a filter that rejects the middle item *)
Definition w_query : query :=
  {| q_index := None; q_values := [(bs ":v", AN (bs "2"))]; q_names := []; q_limit := 0; q_esk := [];
     q_keycond := []; q_filter := bs "x <> :v"; q_cond := None; q_forward := true; q_scan := true |}.

Definition w_ev (k : str) : etype * bool * list nat :=
  match match_key lang_match (ctx_of w_client) w_table w_query (get_item w_table k) with
  | Ok r => r | _ => (ENone, false, []) end.

Lemma w_reach : lookup (bs "c") (fst (run lang_match lang_update V2 [] w_ops)) = Some w_client /\
                lookup (bs "tbl") (c_tables w_client) = Some w_table.
Proof. split; vm_compute; reflexivity. Qed.

Lemma w_keys : t_sorted w_table = [[]; bs "a"; bs "c"].
Proof. vm_compute. reflexivity. Qed.

Lemma w_env : run_env (UK lang_update) lang_match lang_update V2 [] w_ops.
Proof. cbn [run_env w_ops step_env snd fst]. repeat split. Qed.

Example C04_premises_met :
  q_index w_query = None /\ q_cond w_query = None /\ secondary (t_ks w_table) = false /\
  TInv w_table /\ KInv w_table /\
  (forall k, In k (t_sorted w_table) -> match_key lang_match (ctx_of w_client) w_table w_query (get_item w_table k) = Ok (w_ev k)).
Proof.
  destruct w_reach as [R1 R2].
  destruct (KInv_reachable lang_match lang_update V2 w_ops (bs "c") (bs "tbl") w_client w_table w_env R1 R2) as [HT [HK _]].
  split; [reflexivity|]. split; [reflexivity|]. split; [vm_compute; reflexivity|]. split; [exact HT|]. split; [exact HK|].
  intros k Hk. rewrite w_keys in Hk.
  destruct Hk as [<-|[<-|[<-|[]]]]; vm_compute; reflexivity.
Qed.

(* the conclusion, computed: with Limit 1 the walk takes the pages [""], [] (the filtered "a"), ["c"] + a final empty one *)
Example C04_walk_computed :
  pages lang_match (ctx_of w_client) w_table w_query 4 1 [] = Some [it "" "1"; it "c" "4"] /\
  search_data lang_match (ctx_of w_client) w_table (with_page w_query 0 []) = Ok ([it "" "1"; it "c" "4"], [], []) /\
  (* resuming after the deleted item "b" returns what follows it *)
  pages lang_match (ctx_of w_client) w_table w_query 4 1 [(bs "h", AS (bs "b"))] = Some [it "c" "4"].
Proof. vm_compute. repeat split; reflexivity. Qed.

(* ---------- through an index, with a run of equal index keys ---------- *)
From Minidyn Require Import Proofs.FMapFacts Proofs.IndexInv Proofs.TableIndexInv Proofs.ClientIndexInv Proofs.PaginationIndex.

Definition itg (h g x : string) : item := [(bs "g", AS (bs g)); (bs "h", AS (bs h)); (bs "x", AN (bs x))].

Definition wi_ops : list (str * op) :=
  [ (bs "c", OAddTable (bs "tbl") (bs "h") []);
    (bs "c", OAddIndex (bs "tbl") (bs "gix") (bs "g") []);
    (bs "c", OPut (bs "tbl") (itg "k1" "p" "1") None [] [] false);
    (bs "c", OPut (bs "tbl") (itg "k2" "p" "2") None [] [] false);
    (bs "c", OPut (bs "tbl") (itg "k3" "p" "3") None [] [] false);
    (bs "c", OPut (bs "tbl") (itg "k0" "q" "4") None [] [] false);
    (bs "c", OPut (bs "tbl") (it "k9" "5") None [] [] false) ].       (* not in the index: no "g" *)

Definition wi_client : client :=
  match lookup (bs "c") (fst (run lang_match lang_update V2 [] wi_ops)) with Some c => c | None => new_client end.
Definition wi_table : table :=
  match lookup (bs "tbl") (c_tables wi_client) with Some t => t | None => w_table end.
Definition wi_index : index :=
  match lookup (bs "gix") (t_indexes wi_table) with Some ix => ix | None => new_index IxGlobal [] [] end.

(* a query on the index partition "p" with a filter *)
Definition wi_query : query :=
  {| q_index := Some (bs "gix"); q_values := [(bs ":g", AS (bs "p")); (bs ":v", AN (bs "2"))]; q_names := []; q_limit := 0; q_esk := [];
     q_keycond := bs "g = :g"; q_filter := bs "x <> :v"; q_cond := None; q_forward := true; q_scan := false |}.

Definition wi_ev (k : str) : etype * bool * list nat :=
  match match_key lang_match (ctx_of wi_client) wi_table wi_query (get_item wi_table k) with
  | Ok r => r | _ => (ENone, false, []) end.

Lemma wi_reach : lookup (bs "c") (fst (run lang_match lang_update V2 [] wi_ops)) = Some wi_client /\
                 lookup (bs "tbl") (c_tables wi_client) = Some wi_table /\
                 lookup (bs "gix") (t_indexes wi_table) = Some wi_index.
Proof. repeat split; vm_compute; reflexivity. Qed.

Lemma wi_entries : ies wi_query wi_index = [(bs "p", bs "k1"); (bs "p", bs "k2"); (bs "p", bs "k3"); (bs "q", bs "k0")].
Proof. vm_compute. reflexivity. Qed.

Example C04_index_premises_met :
  q_index wi_query = Some (bs "gix") /\ lookup (bs "gix") (t_indexes wi_table) = Some wi_index /\ q_cond wi_query = None /\
  secondary (t_ks wi_table) = false /\ KInv wi_table /\ IInv (t_defs wi_table) (t_data wi_table) wi_index /\
  (forall e, In e (ies wi_query wi_index) ->
     match_key lang_match (ctx_of wi_client) wi_table wi_query (get_item wi_table (snd e)) = Ok (wi_ev (snd e))).
Proof.
  destruct wi_reach as [R1 [R2 R3]].
  assert (run_env (UK lang_update) lang_match lang_update V2 [] wi_ops) as E1.
  { unfold wi_ops. cbn [run_env step_env snd fst]. repeat split. }
  destruct (KInv_reachable lang_match lang_update V2 wi_ops _ _ _ _ E1 R1 R2) as [HT [HK _]].
  destruct (XInv_reachable lang_match lang_update V2 wi_ops _ _ _ _ R1 R2) as [_ HX].
  split; [reflexivity|]. split; [exact R3|]. split; [reflexivity|]. split; [vm_compute; reflexivity|].
  split; [exact HK|]. split; [apply (HX (bs "gix")); apply lookup_In; exact R3|].
  intros e He. rewrite wi_entries in He.
  destruct He as [<-|[<-|[<-|[<-|[]]]]]; vm_compute; reflexivity.
Qed.

(* Limit 1 inside the run of equal index keys "p": pages [k1], [] (k2 filtered out), [k3], then the entry of "q" ends the
   key condition; the walk returns what the unpaginated query returns *)
Example C04_index_walk_computed :
  ipages lang_match (ctx_of wi_client) wi_table wi_query 5 1 [] = Some [itg "k1" "p" "1"; itg "k3" "p" "3"] /\
  search_data lang_match (ctx_of wi_client) wi_table (with_page wi_query 0 []) = Ok ([itg "k1" "p" "1"; itg "k3" "p" "3"], [], []).
Proof. vm_compute. repeat split; reflexivity. Qed.
