(* Non-vacuity of the C04 theorems: a concrete reachable table (built by the model from a history, with the model's own
   expression language) meets every premise of pagination_complete_base / resume_complete_base, and the conclusion,
   evaluated on it, is a non-trivial three-page walk. *)
From Coq Require Import List Bool Arith Lia.
From Coq Require Import Strings.Byte Strings.String.
From Minidyn Require Import Base.Str Base.FMap Base.Outcome Model.Value Model.Key Model.Index Model.Table Model.Client
  Model.Language.
From Minidyn Require Import Proofs.TableInv Proofs.ClientInv Proofs.KeyInv Proofs.Pagination.
Import ListNotations.

Definition it (h : string) (x : string) : item := [(bs "h", AS (bs h)); (bs "x", AN (bs x))].

(* one item has the empty string as its key: the case that used to loop (fixed: 8ce83c4) *)
Definition w_ops : list (str * op) :=
  [ (bs "c", OAddTable (bs "tbl") (bs "h") []);
    (bs "c", OPut (bs "tbl") (it "" "1") None [] []);
    (bs "c", OPut (bs "tbl") (it "b" "3") None [] []);
    (bs "c", OPut (bs "tbl") (it "a" "2") None [] []);
    (bs "c", OPut (bs "tbl") (it "c" "4") None [] []);
    (bs "c", ODelete (bs "tbl") [(bs "h", AS (bs "b"))] None [] [] false) ].

Definition w_client : client :=
  match lookup (bs "c") (fst (run lang_match lang_update V2 [] w_ops)) with Some c => c | None => new_client end.
Definition w_table : table :=
  match lookup (bs "tbl") (c_tables w_client) with Some t => t | None =>
    {| t_name := []; t_ks := {| hashk := []; rangek := []; secondary := false |}; t_defs := []; t_sorted := []; t_data := []; t_indexes := [] |} end.

(* a scan with a filter that rejects the middle item *)
Definition w_query : query :=
  {| q_index := None; q_values := [(bs ":v", AN (bs "2"))]; q_names := []; q_limit := 0; q_esk := [];
     q_keycond := []; q_filter := bs "x <> :v"; q_cond := None; q_forward := true; q_scan := true |}.

Definition w_ev (k : str) : etype * bool * list nat :=
  match match_key lang_match (ctx_of w_client) w_table w_query (get_item w_table k) with
  | Ok r => r | _ => (ENone, false, []) end.

Lemma w_reach : lookup (bs "c") (fst (run lang_match lang_update V2 [] w_ops)) = Some w_client /\
                lookup (bs "tbl") (c_tables w_client) = Some w_table.
Proof. split; vm_compute; reflexivity. Qed.

Lemma w_keys : t_sorted w_table = [[]; bs "a"; bs "c"].
Proof. vm_compute. reflexivity. Qed.

Lemma w_env : run_env EK (UK lang_update) lang_match lang_update V2 [] w_ops.
Proof. cbn [run_env w_ops step_env snd fst]. repeat split. Qed.

Example C04_premises_met :
  q_index w_query = None /\ q_cond w_query = None /\ secondary (t_ks w_table) = false /\
  TInv w_table /\ KInv w_table /\
  (forall k, In k (t_sorted w_table) -> match_key lang_match (ctx_of w_client) w_table w_query (get_item w_table k) = Ok (w_ev k)).
Proof.
  destruct w_reach as [R1 R2].
  destruct (KInv_reachable lang_match lang_update V2 w_ops (bs "c") (bs "tbl") w_client w_table w_env R1 R2) as [HT HK].
  split; [reflexivity|]. split; [reflexivity|]. split; [vm_compute; reflexivity|]. split; [exact HT|]. split; [exact HK|].
  intros k Hk. rewrite w_keys in Hk.
  destruct Hk as [<-|[<-|[<-|[]]]]; vm_compute; reflexivity.
Qed.

(* the conclusion, computed: with Limit 1 the walk takes the pages [""], [] (the filtered "a"), ["c"] + a final empty one *)
Example C04_walk_computed :
  pages lang_match (ctx_of w_client) w_table w_query 4 1 [] = Some [it "" "1"; it "c" "4"] /\
  search_data lang_match (ctx_of w_client) w_table (with_page w_query 0 []) = Ok ([it "" "1"; it "c" "4"], [], []) /\
  (* resuming after the deleted item "b" returns what follows it *)
  pages lang_match (ctx_of w_client) w_table w_query 4 1 [(bs "h", AS (bs "b"))] = Some [it "c" "4"].
Proof. vm_compute. repeat split; reflexivity. Qed.
