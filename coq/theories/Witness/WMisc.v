(* Non-vacuity of conditional theorems of C03, C17 and C19 on concrete states built by the model. *)
From Coq Require Import List Bool Arith Lia.
From Coq Require Import Strings.Byte Strings.String.
From Minidyn Require Import Base.Str Base.FMap Base.Outcome Model.Value Model.Key Model.Index Model.Table Model.Client
  Model.Language.
From Minidyn Require Import Proofs.Batch Proofs.Flavours Witness.W04.
Import ListNotations.

(* C19: a batch of two puts and a delete on the W04 table: every request succeeds (premise all_ok) ... *)
Definition wb_reqs : list wreq :=
  [WPut (it "p" "10"); WDelete [(bs "h", AS (bs "a"))]; WPut (it "a" "11")].

Example C19_premise_met : all_ok lang_match V2 w_client (bs "tbl") wb_reqs.
Proof.
  intros pre r post E. unfold wb_reqs in E.
  destruct pre as [|a [|b [|c0 pre]]]; cbn in E; inversion E; subst; try (vm_compute; reflexivity).
  all: destruct pre; discriminate.
Qed.

(* ... and the batch does change the state (the conclusion is not an identity) *)
Example C19_batch_changes_state :
  fst (fst (batch_write_reqs lang_match V2 w_client (bs "tbl") wb_reqs [])) <> w_client.
Proof. vm_compute. discriminate. Qed.

(* C19 / C08 (closure theorems): the same batch, issued through batch_write, answers success with nothing unprocessed
   (premise of C19_successful_batch_is_its_decomposition); it meets every premise of C19_validated_batch_succeeds; and a
   batch that names a missing table next to a valid put fails (premise of C08_failed_batch_no_trace) *)
From Minidyn Require Import Proofs.ClientFacts.
Example C19_closure_premise_met :
  exists c', batch_write lang_match V2 w_client [(bs "tbl", wb_reqs)] = (c', ok_obs (PBatchWrite []) []) /\ c' <> w_client.
Proof. eexists. split; [vm_compute; reflexivity|vm_compute; discriminate]. Qed.

Example C19_validated_premises_met :
  lookup (bs "c") (fst (run lang_match lang_update V2 [] w_ops)) = Some w_client /\
  c_failure w_client = None /\ (forall tn, In tn (keys [(bs "tbl", wb_reqs)]) -> v1_name_ok V2 tn = true) /\
  forallb wreq_ok (flat_map snd [(bs "tbl", wb_reqs)]) = true /\
  Nat.ltb batch_limit (List.length (flat_map snd [(bs "tbl", wb_reqs)])) = false /\
  flat_map (prevalidate_table w_client) [(bs "tbl", wb_reqs)] = [].
Proof. split; [exact (proj1 w_reach)|]. repeat split; try (vm_compute; reflexivity). Qed.

Example C08_failed_batch_premise_met :
  res_ok (o_res (snd (batch_write lang_match V2 w_client [(bs "nope", [WPut (it "p" "10")]); (bs "tbl", wb_reqs)]))) = false.
Proof. vm_compute. reflexivity. Qed.

(* C17: the envelope "passes SDK v1 validation" holds of ordinary requests, and the step is not an identity *)
Example C17_premise_met :
  names_ok (OPut (bs "tbl") (it "z" "1") None [] [] false) = true /\
  fst (step lang_match lang_update V1 w_client (OPut (bs "tbl") (it "z" "1") None [] [] false)) <> w_client.
Proof. split; [reflexivity|vm_compute; discriminate]. Qed.

(* C07: the premises of the frame theorem are met by an ordinary update, and its conclusion is what the model computes *)
From Minidyn Require Import Model.Token Model.Parser Model.Update Proofs.UpdateFrame Proofs.PassThrough Proofs.FMapFacts.

Definition wu_item : item :=
  [(bs "a", AN (bs "1")); (bs "b", AS (bs "gone")); (bs "c", AL [AS (bs "keep"); AN (bs "2.5"); AM [(bs "x", ANULL)]]); (bs "h", AS (bs "k"))].
Definition wu_expr : str := bs "SET a = a + :v REMOVE b".
Definition wu_vals : item := [(bs ":v", AN (bs "41"))].

Example C07_premises_met :
  exists it' tok acts,
    lang_update wu_expr wu_item wu_vals [] = Ok it' /\
    parse_upd wu_expr = Some (EUpdate tok (Some acts), 0) /\
    (forall a, In a acts -> action_target [] a <> Some (bs "c")) /\
    plain (AL [AS (bs "keep"); AN (bs "2.5"); AM [(bs "x", ANULL)]]) = true /\
    lookup (bs "c") it' = Some (AL [AS (bs "keep"); AN (bs "2.5"); AM [(bs "x", ANULL)]]) /\
    lookup (bs "a") it' = Some (AN (bs "42")) /\ lookup (bs "b") it' = None.
Proof.
  destruct (lang_update wu_expr wu_item wu_vals []) as [it'| | |] eqn:U; try (vm_compute in U; discriminate).
  destruct (parse_upd wu_expr) as [[[| | | | | | | |tok [acts|]| |] [|k]]|] eqn:P; try (vm_compute in P; discriminate).
  exists it', tok, acts. split; [reflexivity|]. split; [reflexivity|].
  vm_compute in P. inversion P; subst. vm_compute in U. inversion U; subst.
  split; [|repeat split; vm_compute; reflexivity].
  intros a [<-|[<-|[]]]; vm_compute; discriminate.
Qed.
