(* Non-vacuity of conditional theorems of C03, C17 and C19 on concrete states built by the model. *)
From Coq Require Import List Bool Arith Lia.
From Coq Require Import Strings.Byte Strings.String.
From Minidyn Require Import Base.Str Base.FMap Base.Outcome Model.Value Model.Key Model.Index Model.Table Model.Client
  Model.Language.
From Minidyn Require Import Proofs.Batch Proofs.Flavours Witness.W04.
Import ListNotations.

(* C19: a batch of two puts and a delete on the W04 table: every request succeeds (premise all_ok) ... *)
Definition wb_reqs : list wreq :=
  [WPut (it "p" "10"); WDelete [(bs "h", AS (bs "a"))]; WPut (it "a" "11")].

Example C19_premise_met : all_ok lang_match V2 w_client (bs "tbl") wb_reqs.
Proof.
  intros pre r post E. unfold wb_reqs in E.
  destruct pre as [|a [|b [|c0 pre]]]; cbn in E; inversion E; subst; try (vm_compute; reflexivity).
  all: destruct pre; discriminate.
Qed.

(* ... and the batch does change the state (the conclusion is not an identity) *)
Example C19_batch_changes_state :
  fst (fst (batch_write_reqs lang_match V2 w_client (bs "tbl") wb_reqs [])) <> w_client.
Proof. vm_compute. discriminate. Qed.

(* C17: the envelope "passes SDK v1 validation" holds of ordinary requests, and the step is not an identity *)
Example C17_premise_met :
  names_ok (OPut (bs "tbl") (it "z" "1") None [] []) = true /\
  fst (step lang_match lang_update V1 w_client (OPut (bs "tbl") (it "z" "1") None [] [])) <> w_client.
Proof. split; [reflexivity|vm_compute; discriminate]. Qed.
