(* float64 as Floats.SpecFloat (prec 53, emax 1024), with models of strconv.ParseFloat on decimal
   numerals (correctly rounded, half-even) and strconv.FormatFloat(v, 'f', -1, 64) (shortest digits).
   Pure Z arithmetic; no primitive floats, no axioms. *)
From Coq Require Import ZArith List Bool Lia Floats.SpecFloat.
From Coq Require Import Strings.Byte Strings.String.
From Minidyn Require Import Base.Str.
Import ListNotations.
Local Open Scope Z_scope.

Definition prec := 53.
Definition emax := 1024.
Definition f64 := spec_float.

Definition f64_add (a b : f64) : f64 := SFadd prec emax a b.
Definition f64_sub (a b : f64) : f64 := SFsub prec emax a b.
Definition f64_eqb (a b : f64) : bool := SFeqb a b.       (* IEEE ==: 0 == -0, nan <> nan *)
Definition f64_ltb (a b : f64) : bool := SFltb a b.
Definition f64_leb (a b : f64) : bool := SFleb a b.
Definition f64_of_Z (z : Z) : f64 := binary_normalize prec emax z 0 false.
Definition f64_is_finite (a : f64) : bool :=
  match a with S754_zero _ | S754_finite _ _ _ => true | _ => false end.

(* value of (-1)^neg * mant * 10^e10, rounded once *)
Definition parse_decimal (neg : bool) (mant e10 : Z) : f64 :=
  match mant with
  | Z0 => S754_zero neg
  | Zneg _ => S754_nan
  | Zpos p =>
      if 0 <=? e10 then
        match mant * 10 ^ e10 with
        | Zpos q => binary_round prec emax neg q 0
        | _ => S754_nan
        end
      else
        let '(q, e', l) := SFdiv_core_binary prec emax mant 0 (10 ^ (- e10)) 0 in
        binary_round_aux prec emax neg q e' l
  end.

(* ---- numeral syntax: [+-] digits [. digits] [(e|E) [+-] digits] ---- *)
Definition is_digit (b : byte) : bool := let n := b2n b in (N.leb 48 n && N.leb n 57)%N.
Definition digit_val (b : byte) : Z := Z.of_N (b2n b) - 48.

Fixpoint read_digits (s : str) (acc : Z) (n : Z) : Z * Z * str :=   (* value, count, rest *)
  match s with
  | c :: t => if is_digit c then read_digits t (acc * 10 + digit_val c) (n + 1) else (acc, n, s)
  | [] => (acc, n, [])
  end.

Definition byte_is (b : byte) (n : N) : bool := N.eqb (b2n b) n.

Definition read_sign (s : str) : bool * str :=
  match s with
  | c :: t => if byte_is c 45 then (true, t) else if byte_is c 43 then (false, t) else (false, s)
  | [] => (false, [])
  end.

(* Some (neg, mantissa, exponent) when s is a decimal numeral *)
Definition parse_numeral (s : str) : option (bool * Z * Z) :=
  let '(neg, s1) := read_sign s in
  let '(ip, ni, s2) := read_digits s1 0 0 in
  let '(m, nf, s3) :=
    match s2 with
    | c :: t => if byte_is c 46 then read_digits t ip 0 else (ip, 0, s2)
    | [] => (ip, 0, [])
    end in
  if (ni + nf =? 0) then None else
  match s3 with
  | [] => Some (neg, m, - nf)
  | c :: t =>
      if byte_is c 101 || byte_is c 69 then
        let '(eneg, s4) := read_sign t in
        let '(ev, ne, s5) := read_digits s4 0 0 in
        match s5 with
        | [] => if ne =? 0 then None else Some (neg, m, (if eneg then - ev else ev) - nf)
        | _ => None
        end
      else None
  end.

(* strconv.ParseFloat(s, 64) restricted to decimal numerals; None = error (syntax, or range when infinite) *)
Definition parse_float (s : str) : option f64 :=
  match parse_numeral s with
  | None => None
  | Some (neg, m, e) =>
      (* keep powers of ten small when the mantissa is zero or the exponent absurd *)
      if m =? 0 then Some (S754_zero neg)
      else if 400 <? e then None
      else if e <? -800 then Some (S754_zero neg)
      else let f := parse_decimal neg m e in
           if f64_is_finite f then Some f else None
  end.

(* ---- strconv.FormatFloat(v, 'f', -1, 64): Go's roundShortest restated on exact integers ---- *)
Definition mantbits := 52.
Definition minexp := -1074.

Fixpoint ndigits_aux (fuel : nat) (x : Z) : Z :=
  match fuel with O => 0 | S f => if x <? 10 then 1 else 1 + ndigits_aux f (x / 10) end.
Definition ndigits (x : Z) : Z := ndigits_aux 2000 x.

Record choice := { val : Z; pos : Z }.

Fixpoint walk (fuel : nat) (p : Z) (V L U : Z) (incl : bool) : choice :=
  match fuel with
  | O => {| val := V; pos := 0 |}
  | S f =>
      let w := 10 ^ p in
      let down := (V / w) * w in
      let up := down + w in
      let okdown := (L <? down) || (incl && (L =? down)) in
      let okup := (up <? U) || (incl && (up =? U)) in
      let r := V - down in
      let nearest :=
        match Z.compare (2 * r) w with
        | Lt => down | Gt => up
        | Eq => if Z.odd (down / w) then up else down
        end in
      if okdown && okup then {| val := nearest; pos := p |}
      else if okdown then {| val := down; pos := p |}
      else if okup then {| val := up; pos := p |}
      else if p <=? 0 then {| val := V; pos := 0 |} else walk f (p - 1) V L U incl
  end.

Definition shortest (m e : Z) : Z * Z :=
  let a := 2 + Z.max 0 (- e) in
  let sc (mm ee : Z) := mm * 2 ^ (ee + a) * 5 ^ a in
  let V := sc m e in
  let U := sc (2 * m + 1) (e - 1) in
  let L := if (m =? 2 ^ mantbits) && negb (e =? minexp) then sc (4 * m - 1) (e - 2) else sc (2 * m - 1) (e - 1) in
  let c := walk 2000 (ndigits U - 1) V L U (Z.even m) in
  (val c, a).

Fixpoint strip0 (fuel : nat) (R K : Z) : Z * Z :=
  match fuel with O => (R, K) | S f => if (0 <? K) && (R mod 10 =? 0) then strip0 f (R / 10) (K - 1) else (R, K) end.

Definition zdigit (d : Z) : byte := match Byte.of_N (Z.to_N (48 + d)) with Some b => b | None => "0"%byte end.
Fixpoint digits_aux (fuel : nat) (x : Z) (acc : str) : str :=
  match fuel with
  | O => acc
  | S f => if x <? 10 then zdigit x :: acc else digits_aux f (x / 10) (zdigit (x mod 10) :: acc)
  end.
Definition zdigits (x : Z) : str := digits_aux 2000 x [].
Fixpoint pad0 (n : nat) (s : str) : str := match n with O => s | S k => pad0 k ("0"%byte :: s) end.

Definition format_pos (m e : Z) : str :=
  let '(R0, K0) := shortest m e in
  let '(R, K) := strip0 2000 R0 K0 in
  let ip := R / 10 ^ K in
  let fp := R mod 10 ^ K in
  if K =? 0 then zdigits ip
  else let fs := zdigits fp in
       zdigits ip ++ ["."%byte] ++ pad0 (Z.to_nat K - List.length fs) fs.

Definition format_float (f : f64) : str :=
  match f with
  | S754_zero s => if s then ["-"%byte; "0"%byte] else ["0"%byte]
  | S754_infinity s => if s then bs "-Inf" else bs "+Inf"
  | S754_nan => bs "NaN"
  | S754_finite s m e => (if s then ["-"%byte] else []) ++ format_pos (Zpos m) e
  end.

(* the text every number takes after passing through an update: FormatFloat(ParseFloat(s)) *)
Definition renumber (s : str) : option str := option_map format_float (parse_float s).
