(* Finite maps keyed by strings, as association lists kept sorted by key without duplicates.
   Go map semantics (lookup, assignment, delete); iteration in key order. *)
From Coq Require Import List Bool Sorting.Sorted.
From Minidyn Require Import Base.Str.
Import ListNotations.

Definition fmap (V : Type) := list (str * V).

Section FMap.
Context {V : Type}.

Fixpoint lookup (k : str) (m : fmap V) : option V :=
  match m with
  | [] => None
  | (k', v) :: t => if str_eqb k k' then Some v else lookup k t
  end.

Fixpoint insert (k : str) (v : V) (m : fmap V) : fmap V :=
  match m with
  | [] => [(k, v)]
  | (k', v') :: t =>
      match str_compare k k' with
      | Lt => (k, v) :: m
      | Eq => (k, v) :: t
      | Gt => (k', v') :: insert k v t
      end
  end.

Fixpoint remove (k : str) (m : fmap V) : fmap V :=
  match m with
  | [] => []
  | (k', v') :: t => if str_eqb k k' then t else (k', v') :: remove k t
  end.

Definition keys (m : fmap V) : list str := map fst m.
Definition mem (k : str) (m : fmap V) : bool := match lookup k m with Some _ => true | None => false end.
Definition of_list (l : list (str * V)) : fmap V := fold_left (fun m kv => insert (fst kv) (snd kv) m) l [].

Definition wf (m : fmap V) : Prop := ssorted (keys m).

End FMap.
