(* Results of operations: value, API error class, Go panic (documented or runtime), fuel exhaustion. *)
From Coq Require Import List.
Import ListNotations.

Inductive errclass :=
| Validation | CondFailed | NotFound | InUse | InternalServer | ForcedFailure
| Unsupported | Syntax | InvalidParam.

Inductive panic := SyntaxPanic | UnsupportedPanic | RuntimePanic.

Inductive outcome (A : Type) :=
| Ok (a : A)
| Err (e : errclass)
| Panic (p : panic)
| OutOfFuel.
Arguments Ok {A} a.
Arguments Err {A} e.
Arguments Panic {A} p.
Arguments OutOfFuel {A}.

Definition obind {A B} (x : outcome A) (f : A -> outcome B) : outcome B :=
  match x with Ok a => f a | Err e => Err e | Panic p => Panic p | OutOfFuel => OutOfFuel end.

Definition omap {A B} (f : A -> B) (x : outcome A) : outcome B := obind x (fun a => Ok (f a)).

Definition errclass_eqb (a b : errclass) : bool :=
  match a, b with
  | Validation, Validation | CondFailed, CondFailed | NotFound, NotFound | InUse, InUse
  | InternalServer, InternalServer | ForcedFailure, ForcedFailure | Unsupported, Unsupported
  | Syntax, Syntax | InvalidParam, InvalidParam => true
  | _, _ => false
  end.

Definition panic_eqb (a b : panic) : bool :=
  match a, b with
  | SyntaxPanic, SyntaxPanic | UnsupportedPanic, UnsupportedPanic | RuntimePanic, RuntimePanic => true
  | _, _ => false
  end.

(* the two emulated failure conditions of the clients *)
Inductive failure := FInternal | FDeprecated.
