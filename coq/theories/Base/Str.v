(* Go strings as byte lists, with Go's byte-wise lexicographic order,
   sort.Strings / sort.SearchStrings modelled by their specification on sorted input. *)
From Coq Require Import List Arith NArith Lia Bool Sorting.Sorted Permutation.
From Coq Require Import Strings.Byte Strings.String Strings.Ascii.
Import ListNotations.

Definition str := list byte.

Definition bs (s : string) : str := list_byte_of_string s.

Definition b2n (b : byte) : N := Byte.to_N b.

Lemma b2n_inj a b : b2n a = b2n b -> a = b.
Proof.
  unfold b2n; intros H.
  pose proof (Byte.of_to_N a) as Ha. pose proof (Byte.of_to_N b) as Hb.
  rewrite H in Ha. rewrite Ha in Hb. now inversion Hb.
Qed.

Definition byte_compare (a b : byte) : comparison := N.compare (b2n a) (b2n b).

Fixpoint str_compare (a b : str) : comparison :=
  match a, b with
  | [], [] => Eq
  | [], _ :: _ => Lt
  | _ :: _, [] => Gt
  | x :: a', y :: b' =>
      match byte_compare x y with
      | Eq => str_compare a' b'
      | c => c
      end
  end.

Definition str_eqb (a b : str) : bool := match str_compare a b with Eq => true | _ => false end.
Definition str_ltb (a b : str) : bool := match str_compare a b with Lt => true | _ => false end.
Definition str_leb (a b : str) : bool := match str_compare a b with Gt => false | _ => true end.

Lemma byte_compare_eq a b : byte_compare a b = Eq <-> a = b.
Proof.
  unfold byte_compare; rewrite N.compare_eq_iff; split; [apply b2n_inj | now intros ->].
Qed.

Lemma str_compare_eq a b : str_compare a b = Eq <-> a = b.
Proof.
  revert b; induction a as [|x a IH]; intros [|y b]; cbn; try (split; congruence).
  destruct (byte_compare x y) eqn:E.
  - apply byte_compare_eq in E; subst. rewrite IH. split; congruence.
  - split; [discriminate|]. intros H; inversion H; subst.
    assert (byte_compare y y = Eq) by now apply byte_compare_eq. congruence.
  - split; [discriminate|]. intros H; inversion H; subst.
    assert (byte_compare y y = Eq) by now apply byte_compare_eq. congruence.
Qed.

Lemma str_compare_refl a : str_compare a a = Eq.
Proof. now apply str_compare_eq. Qed.

Lemma byte_compare_antisym a b : byte_compare b a = CompOpp (byte_compare a b).
Proof. unfold byte_compare. apply N.compare_antisym. Qed.

Lemma str_compare_antisym a b : str_compare b a = CompOpp (str_compare a b).
Proof.
  revert b; induction a as [|x a IH]; intros [|y b]; cbn; auto.
  rewrite (byte_compare_antisym x y). destruct (byte_compare x y); cbn; auto.
Qed.

Lemma byte_compare_lt_trans a b c :
  byte_compare a b = Lt -> byte_compare b c = Lt -> byte_compare a c = Lt.
Proof. unfold byte_compare. rewrite !N.compare_lt_iff. lia. Qed.

Lemma str_compare_lt_trans a b c :
  str_compare a b = Lt -> str_compare b c = Lt -> str_compare a c = Lt.
Proof.
  revert b c; induction a as [|x a IH]; intros [|y b] [|z c]; cbn; try congruence.
  destruct (byte_compare x y) eqn:Exy; try discriminate.
  - apply byte_compare_eq in Exy; subst y.
    destruct (byte_compare x z) eqn:Exz; auto. intros. eapply IH; eauto.
  - intros _. destruct (byte_compare y z) eqn:Eyz; try discriminate.
    + apply byte_compare_eq in Eyz; subst z. now rewrite Exy.
    + intros _. now rewrite (byte_compare_lt_trans x y z).
Qed.

Lemma str_eqb_eq a b : str_eqb a b = true <-> a = b.
Proof.
  unfold str_eqb. rewrite <- str_compare_eq. destruct (str_compare a b); split; congruence.
Qed.

Lemma str_eqb_refl a : str_eqb a a = true.
Proof. now apply str_eqb_eq. Qed.

Lemma str_eqb_neq a b : str_eqb a b = false <-> a <> b.
Proof.
  rewrite <- str_eqb_eq. destruct (str_eqb a b); split; congruence.
Qed.

Lemma str_eqb_sym a b : str_eqb a b = str_eqb b a.
Proof.
  destruct (str_eqb a b) eqn:E.
  - apply str_eqb_eq in E; subst. now rewrite str_eqb_refl.
  - symmetry. apply str_eqb_neq. apply str_eqb_neq in E. congruence.
Qed.

Lemma str_eqb_spec a b : reflect (a = b) (str_eqb a b).
Proof. apply iff_reflect. symmetry. apply str_eqb_eq. Qed.

Definition str_lt (a b : str) : Prop := str_compare a b = Lt.

Lemma str_ltb_lt a b : str_ltb a b = true <-> str_lt a b.
Proof. unfold str_ltb, str_lt. destruct (str_compare a b); split; congruence. Qed.

Lemma str_lt_irrefl a : ~ str_lt a a.
Proof. unfold str_lt. now rewrite str_compare_refl. Qed.

Lemma str_lt_trans a b c : str_lt a b -> str_lt b c -> str_lt a c.
Proof. apply str_compare_lt_trans. Qed.

Lemma str_lt_asym a b : str_lt a b -> ~ str_lt b a.
Proof. unfold str_lt. rewrite (str_compare_antisym a b). destruct (str_compare a b); cbn; congruence. Qed.

Lemma str_lt_total a b : str_lt a b \/ a = b \/ str_lt b a.
Proof.
  unfold str_lt. rewrite (str_compare_antisym a b).
  destruct (str_compare a b) eqn:E; cbn; auto.
  right; left. now apply str_compare_eq.
Qed.

Lemma str_lt_neq a b : str_lt a b -> a <> b.
Proof. intros H ->. now apply str_lt_irrefl in H. Qed.

Lemma str_leb_spec a b : str_leb a b = true <-> (str_lt a b \/ a = b).
Proof.
  unfold str_leb, str_lt. destruct (str_compare a b) eqn:E; split; auto; try congruence.
  - intros _. right. now apply str_compare_eq.
  - intros [H|H]; try discriminate. subst. now rewrite str_compare_refl in E.
Qed.

Lemma str_leb_false a b : str_leb a b = false <-> str_lt b a.
Proof.
  unfold str_leb, str_lt. rewrite (str_compare_antisym a b).
  destruct (str_compare a b); cbn; split; congruence.
Qed.

Lemma str_ltb_false a b : str_ltb a b = false <-> (str_lt b a \/ a = b).
Proof.
  unfold str_ltb, str_lt. rewrite (str_compare_antisym a b).
  destruct (str_compare a b) eqn:E; cbn; split; auto; try congruence.
  - intros _. right. now apply str_compare_eq.
  - intros [H|H]; try discriminate. subst. now rewrite str_compare_refl in E.
Qed.

(* ---------- sorted string lists ---------- *)

(* sort.Strings(append(l, x)) on a sorted l: insertion before the first element greater than x *)
Fixpoint ins_sorted (x : str) (l : list str) : list str :=
  match l with
  | [] => [x]
  | y :: t => if str_ltb x y then x :: l else y :: ins_sorted x t
  end.

Definition sort_strings (l : list str) : list str := fold_right ins_sorted [] l.

(* sort.SearchStrings(l, x) on a sorted l: index of the first element >= x *)
Fixpoint lower_bound (x : str) (l : list str) : nat :=
  match l with
  | [] => 0
  | y :: t => if str_leb x y then 0 else S (lower_bound x t)
  end.

Fixpoint remove_at {A} (n : nat) (l : list A) : list A :=
  match l, n with
  | [], _ => []
  | _ :: t, O => t
  | y :: t, S n' => y :: remove_at n' t
  end.

Definition ssorted (l : list str) : Prop := StronglySorted str_lt l.   (* strictly sorted: no duplicates *)
Definition wsorted (l : list str) : Prop := StronglySorted (fun a b => str_lt a b \/ a = b) l.   (* duplicates allowed *)

Fixpoint mem_str (x : str) (l : list str) : bool :=
  match l with [] => false | y :: t => str_eqb x y || mem_str x t end.

Lemma mem_str_In x l : mem_str x l = true <-> In x l.
Proof.
  induction l as [|y t IH]; cbn; [split; [discriminate|tauto]|].
  rewrite orb_true_iff, IH, str_eqb_eq. split; intros [H|H]; auto.
Qed.

(* join and misc *)
Fixpoint join (sep : str) (l : list str) : str :=
  match l with [] => [] | [x] => x | x :: t => x ++ sep ++ join sep t end.

Fixpoint is_prefix (p s : str) : bool :=
  match p, s with
  | [], _ => true
  | _ :: _, [] => false
  | x :: p', y :: s' => Byte.eqb x y && is_prefix p' s'
  end.

Fixpoint contains_sub (s sub : str) : bool :=
  is_prefix sub s || match s with [] => false | _ :: t => contains_sub t sub end.

Definition dot : byte := "."%byte.
