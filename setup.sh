#!/bin/sh
# Offline build of the verification framework: translator, generated Coq tables, full Coq build (.vo), Go harness.
set -e
cd "$(dirname "$0")"
export GOFLAGS=-mod=mod GOPROXY=off GOSUMDB=off GOTOOLCHAIN=local
mkdir -p build evidence replays
python3 - <<'PY'
import sys
sys.path.insert(0, '.')
from lib import runner
runner.build_coq(clean=False)
runner.build_harness()
print('setup ok')
PY
