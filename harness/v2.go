package main

import (
	"context"
	"errors"

	"github.com/aws/aws-sdk-go-v2/aws"
	"github.com/aws/aws-sdk-go-v2/service/dynamodb"
	"github.com/aws/aws-sdk-go-v2/service/dynamodb/types"
	client "github.com/truora/minidyn/aws-v2/client"
	"github.com/truora/minidyn/interpreter"
	mt "github.com/truora/minidyn/types"
)

var ctx = context.Background()

type v2Client struct {
	c *client.Client
}

func (c *v2Client) dump() J { return dumpTables(client.VerifTables(c.c)) }

func (s *session) c2(op J) *v2Client {
	id := str(op, "client")
	c, ok := s.v2[id]
	if !ok {
		c = &v2Client{c: client.NewClient()}
		s.v2[id] = c
	}
	return c
}

func v2KeySchema(op J) ([]types.KeySchemaElement, []types.AttributeDefinition) {
	ks := []types.KeySchemaElement{}
	defs := []types.AttributeDefinition{}
	if h := obj(op, "hash"); h != nil {
		ks = append(ks, types.KeySchemaElement{AttributeName: aws.String(str(h, "name")), KeyType: types.KeyTypeHash})
		if has(h, "type") {
			defs = append(defs, types.AttributeDefinition{AttributeName: aws.String(str(h, "name")), AttributeType: types.ScalarAttributeType(str(h, "type"))})
		}
	}
	if r := obj(op, "range"); r != nil {
		ks = append(ks, types.KeySchemaElement{AttributeName: aws.String(str(r, "name")), KeyType: types.KeyTypeRange})
		if has(r, "type") {
			defs = append(defs, types.AttributeDefinition{AttributeName: aws.String(str(r, "name")), AttributeType: types.ScalarAttributeType(str(r, "type"))})
		}
	}
	if b, ok := op["range_first"].(bool); ok && b && len(ks) == 2 {
		// the same schema, listed RANGE element first
		ks[0], ks[1] = ks[1], ks[0]
	}
	return ks, defs
}

func v2Throughput(op J) *types.ProvisionedThroughput {
	if b, ok := op["throughput"].(bool); ok && b {
		return &types.ProvisionedThroughput{ReadCapacityUnits: aws.Int64(5), WriteCapacityUnits: aws.Int64(5)}
	}
	return nil
}

func v2Desc(d *types.TableDescription) J {
	if d == nil {
		return nil
	}
	ks := func(l []types.KeySchemaElement) []interface{} {
		out := []interface{}{}
		for _, e := range l {
			out = append(out, J{"name": b2l(aws.ToString(e.AttributeName)), "type": string(e.KeyType)})
		}
		return out
	}
	g := []interface{}{}
	for _, x := range d.GlobalSecondaryIndexes {
		g = append(g, J{"name": b2l(aws.ToString(x.IndexName)), "count": aws.ToInt64(x.ItemCount), "schema": ks(x.KeySchema), "proj": v2Proj(x.Projection)})
	}
	l := []interface{}{}
	for _, x := range d.LocalSecondaryIndexes {
		l = append(l, J{"name": b2l(aws.ToString(x.IndexName)), "count": aws.ToInt64(x.ItemCount), "schema": ks(x.KeySchema), "proj": v2Proj(x.Projection)})
	}
	return J{"name": b2l(aws.ToString(d.TableName)), "count": aws.ToInt64(d.ItemCount), "schema": ks(d.KeySchema), "gsi": g, "lsi": l}
}

func v2Items(l []map[string]types.AttributeValue) []interface{} {
	out := []interface{}{}
	for _, i := range l {
		out = append(out, itemFromV2(i))
	}
	return out
}

func (s *session) runV2(name string, op J) J {
	c := s.c2(op)
	cl := c.c
	forced := client.ErrForcedFailure
	res := func(err error) J {
		r := J{"r": classify(err, forced)}
		// surface rule (fix 35be8d0): an error that carries a DynamoDB code reaches the caller as a smithy.APIError
		var ec errorCoder
		var cd coder
		if err != nil && !errors.As(err, &ec) && errors.As(err, &cd) {
			r["raw_err"] = true
		}
		return r
	}
	table := aws.String(str(op, "table"))

	switch name {
	case "new_client":
		s.v2[str(op, "client")] = &v2Client{c: client.NewClient()}
		return J{"r": "ok"}
	case "add_table":
		return res(client.AddTable(ctx, cl, str(op, "table"), str(op, "hash"), str(op, "range")))
	case "add_index":
		return res(client.AddIndex(ctx, cl, str(op, "table"), str(op, "index"), str(op, "hash"), str(op, "range")))
	case "clear_table":
		return res(client.ClearTable(cl, str(op, "table")))
	case "create_table":
		ks, defs := v2KeySchema(op)
		for _, d := range arr(op, "attrs") {
			dd := d.(map[string]interface{})
			defs = append(defs, types.AttributeDefinition{AttributeName: aws.String(str(dd, "name")), AttributeType: types.ScalarAttributeType(str(dd, "type"))})
		}
		in := &dynamodb.CreateTableInput{TableName: table, KeySchema: ks, AttributeDefinitions: defs, BillingMode: types.BillingMode(str(op, "billing")), ProvisionedThroughput: v2Throughput(op)}
		for _, g := range arr(op, "gsi") {
			gg := g.(map[string]interface{})
			gks, _ := v2KeySchema(gg)
			in.GlobalSecondaryIndexes = append(in.GlobalSecondaryIndexes, types.GlobalSecondaryIndex{IndexName: aws.String(str(gg, "name")), KeySchema: gks, Projection: &types.Projection{ProjectionType: types.ProjectionTypeAll}, ProvisionedThroughput: v2Throughput(gg)})
		}
		for _, g := range arr(op, "lsi") {
			gg := g.(map[string]interface{})
			gks, _ := v2KeySchema(gg)
			in.LocalSecondaryIndexes = append(in.LocalSecondaryIndexes, types.LocalSecondaryIndex{IndexName: aws.String(str(gg, "name")), KeySchema: gks, Projection: &types.Projection{ProjectionType: types.ProjectionTypeAll}})
		}
		o, err := cl.CreateTable(ctx, in)
		r := res(err)
		if o != nil {
			r["desc"] = v2Desc(o.TableDescription)
		}
		return r
	case "delete_table":
		o, err := cl.DeleteTable(ctx, &dynamodb.DeleteTableInput{TableName: table})
		r := res(err)
		if o != nil {
			r["desc"] = v2Desc(o.TableDescription)
		}
		return r
	case "describe_table":
		o, err := cl.DescribeTable(ctx, &dynamodb.DescribeTableInput{TableName: table})
		r := res(err)
		if o != nil {
			r["desc"] = v2Desc(o.Table)
		}
		return r
	case "update_table":
		in := &dynamodb.UpdateTableInput{TableName: table}
		for _, d := range arr(op, "attrs") {
			dd := d.(map[string]interface{})
			in.AttributeDefinitions = append(in.AttributeDefinitions, types.AttributeDefinition{AttributeName: aws.String(str(dd, "name")), AttributeType: types.ScalarAttributeType(str(dd, "type"))})
		}
		if g := obj(op, "create"); g != nil {
			gks, _ := v2KeySchema(g)
			in.GlobalSecondaryIndexUpdates = append(in.GlobalSecondaryIndexUpdates, types.GlobalSecondaryIndexUpdate{Create: &types.CreateGlobalSecondaryIndexAction{IndexName: aws.String(str(g, "name")), KeySchema: gks, Projection: &types.Projection{ProjectionType: types.ProjectionTypeAll}, ProvisionedThroughput: v2Throughput(g)}})
		}
		if has(op, "delete") {
			in.GlobalSecondaryIndexUpdates = append(in.GlobalSecondaryIndexUpdates, types.GlobalSecondaryIndexUpdate{Delete: &types.DeleteGlobalSecondaryIndexAction{IndexName: aws.String(str(op, "delete"))}})
		}
		o, err := cl.UpdateTable(ctx, in)
		r := res(err)
		if o != nil {
			r["desc"] = v2Desc(o.TableDescription)
		}
		return r
	case "put":
		pin := &dynamodb.PutItemInput{TableName: table, Item: itemToV2(obj(op, "item")), ConditionExpression: pstr(op, "cond"), ExpressionAttributeNames: names(op), ExpressionAttributeValues: itemToV2(obj(op, "values")),
			ReturnValuesOnConditionCheckFailure: types.ReturnValuesOnConditionCheckFailureAllOld}
		if b, ok := op["return_old"].(bool); ok && b {
			pin.ReturnValues = types.ReturnValueAllOld
		}
		if has(op, "rv") {
			pin.ReturnValues = types.ReturnValue(str(op, "rv")) // any other value: nothing is returned
		}
		o, err := cl.PutItem(ctx, pin)
		r := res(err)
		var cf *types.ConditionalCheckFailedException
		if errors.As(err, &cf) {
			r["cf_item"] = itemFromV2(cf.Item)
		}
		if err == nil && o != nil && o.Attributes != nil {
			r["item"] = itemFromV2(o.Attributes)
		}
		return r
	case "get":
		gin := &dynamodb.GetItemInput{TableName: table, Key: itemToV2(obj(op, "key")), ExpressionAttributeNames: names(op), ProjectionExpression: pstr(op, "projection")}
		if has(op, "atg") {
			gin.AttributesToGet = strs(op["atg"]) // the legacy parameter: ignored by the library, by every read alike
		}
		o, err := cl.GetItem(ctx, gin)
		r := res(err)
		if o != nil {
			r["item"] = itemFromV2(o.Item)
			r["item_nil"] = o.Item == nil
		}
		return r
	case "update":
		in := &dynamodb.UpdateItemInput{TableName: table, Key: itemToV2(obj(op, "key")), UpdateExpression: aws.String(str(op, "expr")), ConditionExpression: pstr(op, "cond"), ExpressionAttributeNames: names(op), ExpressionAttributeValues: itemToV2(obj(op, "values"))}
		if has(op, "rvoccf") {
			in.ReturnValuesOnConditionCheckFailure = types.ReturnValuesOnConditionCheckFailure(str(op, "rvoccf"))
		}
		o, err := cl.UpdateItem(ctx, in)
		r := res(err)
		if o != nil {
			r["item"] = itemFromV2(o.Attributes)
		}
		var cf *types.ConditionalCheckFailedException
		if errors.As(err, &cf) && cf.Item != nil {
			r["cf_item"] = itemFromV2(cf.Item)
		}
		return r
	case "delete":
		in := &dynamodb.DeleteItemInput{TableName: table, Key: itemToV2(obj(op, "key")), ConditionExpression: pstr(op, "cond"), ExpressionAttributeNames: names(op), ExpressionAttributeValues: itemToV2(obj(op, "values")),
			ReturnValuesOnConditionCheckFailure: types.ReturnValuesOnConditionCheckFailureAllOld}
		if b, ok := op["return_old"].(bool); ok && b {
			in.ReturnValues = types.ReturnValueAllOld
		}
		if has(op, "rv") {
			in.ReturnValues = types.ReturnValue(str(op, "rv")) // any other value: nothing is returned
		}
		o, err := cl.DeleteItem(ctx, in)
		r := res(err)
		var cf *types.ConditionalCheckFailedException
		if errors.As(err, &cf) {
			r["cf_item"] = itemFromV2(cf.Item)
		}
		if o != nil && o.Attributes != nil {
			r["item"] = itemFromV2(o.Attributes)
		}
		return r
	case "query":
		in := &dynamodb.QueryInput{TableName: table, KeyConditionExpression: pstr(op, "keycond"), FilterExpression: pstr(op, "filter"), ExpressionAttributeNames: names(op), ExpressionAttributeValues: itemToV2(obj(op, "values")), ExclusiveStartKey: itemToV2(obj(op, "esk")), ProjectionExpression: pstr(op, "projection")}
		if has(op, "index") {
			in.IndexName = aws.String(str(op, "index"))
		}
		if has(op, "limit") {
			in.Limit = aws.Int32(int32(op["limit"].(float64)))
		}
		if has(op, "forward") {
			in.ScanIndexForward = aws.Bool(op["forward"].(bool))
		}
		o, err := cl.Query(ctx, in)
		r := res(err)
		if o != nil {
			r["items"] = v2Items(o.Items)
			r["count"] = o.Count
			r["lek"] = itemFromV2(o.LastEvaluatedKey)
			r["lek_nil"] = o.LastEvaluatedKey == nil
		}
		return r
	case "scan":
		in := &dynamodb.ScanInput{TableName: table, FilterExpression: pstr(op, "filter"), ExpressionAttributeNames: names(op), ExpressionAttributeValues: itemToV2(obj(op, "values")), ExclusiveStartKey: itemToV2(obj(op, "esk")), ProjectionExpression: pstr(op, "projection")}
		if has(op, "index") {
			in.IndexName = aws.String(str(op, "index"))
		}
		if has(op, "limit") {
			in.Limit = aws.Int32(int32(op["limit"].(float64)))
		}
		o, err := cl.Scan(ctx, in)
		r := res(err)
		if o != nil {
			r["items"] = v2Items(o.Items)
			r["count"] = o.Count
			r["lek"] = itemFromV2(o.LastEvaluatedKey)
			r["lek_nil"] = o.LastEvaluatedKey == nil
		}
		return r
	case "batch_write":
		in := &dynamodb.BatchWriteItemInput{RequestItems: map[string][]types.WriteRequest{}}
		for t, reqs := range obj(op, "requests") {
			l := []types.WriteRequest{}
			for _, rq := range reqs.([]interface{}) {
				r := rq.(map[string]interface{})
				wr := types.WriteRequest{}
				if has(r, "put") {
					wr.PutRequest = &types.PutRequest{Item: itemToV2(obj(r, "put"))}
				}
				if has(r, "delete") {
					wr.DeleteRequest = &types.DeleteRequest{Key: itemToV2(obj(r, "delete"))}
				}
				l = append(l, wr)
			}
			in.RequestItems[l2b(t)] = l
		}
		o, err := cl.BatchWriteItem(ctx, in)
		r := res(err)
		if o != nil && err == nil {
			un := J{}
			for t, reqs := range o.UnprocessedItems {
				l := []interface{}{}
				for _, wr := range reqs {
					e := J{}
					if wr.PutRequest != nil {
						e["put"] = itemFromV2(wr.PutRequest.Item)
					}
					if wr.DeleteRequest != nil {
						e["delete"] = itemFromV2(wr.DeleteRequest.Key)
					}
					l = append(l, e)
				}
				un[b2l(t)] = l
			}
			r["unproc"] = un
		}
		return r
	case "batch_get":
		in := &dynamodb.BatchGetItemInput{RequestItems: map[string]types.KeysAndAttributes{}}
		for t, keys := range obj(op, "requests") {
			ka := types.KeysAndAttributes{}
			for _, k := range keys.([]interface{}) {
				ka.Keys = append(ka.Keys, itemToV2(k.(map[string]interface{})))
			}
			if opts, ok := obj(op, "opts")[t].(map[string]interface{}); ok {
				ka.ExpressionAttributeNames = names(J(opts))
				ka.ProjectionExpression = pstr(J(opts), "projection")
			}
			if has(op, "atg") {
				ka.AttributesToGet = strs(op["atg"])
			}
			in.RequestItems[l2b(t)] = ka
		}
		o, err := cl.BatchGetItem(ctx, in)
		r := res(err)
		if o != nil {
			resp := J{}
			for t, items := range o.Responses {
				resp[b2l(t)] = v2Items(items)
			}
			un := J{}
			for t, ka := range o.UnprocessedKeys {
				un[b2l(t)] = v2Items(ka.Keys)
			}
			r["resp"] = resp
			r["unproc"] = un
		}
		return r
	case "transact":
		_, err := cl.TransactWriteItems(ctx, &dynamodb.TransactWriteItemsInput{})
		return res(err)
	case "emulate_failure":
		client.EmulateFailure(cl, client.FailureCondition(str(op, "cond")))
		return J{"r": "ok"}
	case "activate_force_failure":
		client.ActiveForceFailure(cl)
		return J{"r": "ok"}
	case "deactivate_force_failure":
		client.DeactiveForceFailure(cl)
		return J{"r": "ok"}
	case "activate_native":
		cl.ActivateNativeInterpreter()
		return J{"r": "ok"}
	case "set_interpreter":
		cl.SetInterpreter(interpreter.NewNativeInterpreter())
		return J{"r": "ok"}
	case "add_matcher":
		id, verdict := op["id"], op["verdict"].(bool)
		cl.GetNativeInterpreter().AddMatcher(str(op, "table"), interpreter.ExpressionType(str(op, "kind")), str(op, "expr"), func(item, attrs map[string]*mt.Item) bool {
			s.fired = append(s.fired, id)
			return verdict
		})
		return J{"r": "ok"}
	case "add_updater":
		id, set := op["id"], itemToMT(obj(op, "set"))
		cl.GetNativeInterpreter().AddUpdater(str(op, "table"), str(op, "expr"), func(item, attrs map[string]*mt.Item) {
			s.fired = append(s.fired, id)
			for k, v := range set {
				if k != "@poke" && k != "@pokes" && k != "@drop" {
					item[k] = v
				}
			}
			if _, poke := set["@pokes"]; poke {
				// an in-place write through the pointer of a scalar attribute
				if x := item["x"]; x != nil {
					if x.S != nil {
						*x.S = *x.S + "!"
					} else if x.N != nil {
						*x.N = "777"
					}
				}
			}
			if _, poke := set["@poke"]; poke {
				// an in-place write into every top-level map attribute of the item the updater was handed
				for _, v := range item {
					if v != nil && v.M != nil {
						v.M["poked"] = &mt.Item{S: sp("p")}
					}
					if v != nil {
						// ... and into every map that is an element of a top-level list attribute
						for _, e := range v.L {
							if e != nil && e.M != nil {
								e.M["poked"] = &mt.Item{S: sp("p")}
							}
						}
					}
				}
			}
			if d := set["@drop"]; d != nil && d.S != nil {
				// the updater deletes an attribute
				delete(item, *d.S)
			}
		})
		return J{"r": "ok"}
	}
	return J{"r": "BadOp"}
}

// the projection type of an index description ("" when the description carries none)
func v2Proj(p *types.Projection) string {
	if p == nil {
		return ""
	}
	return string(p.ProjectionType)
}
