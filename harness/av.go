package main

import (
	"sort"

	v1 "github.com/aws/aws-sdk-go/service/dynamodb"
	v2t "github.com/aws/aws-sdk-go-v2/service/dynamodb/types"
	mt "github.com/truora/minidyn/types"
)

// Strings travel as JSON strings whose code points 0..255 stand for bytes (latin-1).
func l2b(s string) string {
	out := make([]byte, 0, len(s))
	for _, r := range s {
		out = append(out, byte(r))
	}
	return string(out)
}

func b2l(s string) string {
	out := make([]rune, 0, len(s))
	for i := 0; i < len(s); i++ {
		out = append(out, rune(s[i]))
	}
	return string(out)
}

// AV is the JSON form of an attribute value: exactly one key.
type AV map[string]interface{}

func strs(x interface{}) []string {
	out := []string{}
	if x == nil {
		return out
	}
	for _, e := range x.([]interface{}) {
		out = append(out, l2b(e.(string)))
	}
	return out
}

func sortedKeys(m map[string]interface{}) []string {
	ks := []string{}
	for k := range m {
		ks = append(ks, k)
	}
	sort.Strings(ks)
	return ks
}

// ---------- SDK v2 ----------
func toV2(a map[string]interface{}) v2t.AttributeValue {
	for k, v := range a {
		switch k {
		case "S":
			return &v2t.AttributeValueMemberS{Value: l2b(v.(string))}
		case "N":
			return &v2t.AttributeValueMemberN{Value: l2b(v.(string))}
		case "B":
			return &v2t.AttributeValueMemberB{Value: []byte(l2b(v.(string)))}
		case "BOOL":
			return &v2t.AttributeValueMemberBOOL{Value: v.(bool)}
		case "NULL":
			nb, isBool := v.(bool)
			return &v2t.AttributeValueMemberNULL{Value: !isBool || nb} // {"NULL": false} is sent as such
		case "SS":
			return &v2t.AttributeValueMemberSS{Value: strs(v)}
		case "NS":
			return &v2t.AttributeValueMemberNS{Value: strs(v)}
		case "BS":
			bs := [][]byte{}
			for _, s := range strs(v) {
				bs = append(bs, []byte(s))
			}
			return &v2t.AttributeValueMemberBS{Value: bs}
		case "L":
			l := []v2t.AttributeValue{}
			for _, e := range v.([]interface{}) {
				l = append(l, toV2(e.(map[string]interface{})))
			}
			return &v2t.AttributeValueMemberL{Value: l}
		case "M":
			return &v2t.AttributeValueMemberM{Value: itemToV2(v.(map[string]interface{}))}
		}
	}
	panic("bad av")
}

func itemToV2(m map[string]interface{}) map[string]v2t.AttributeValue {
	if m == nil {
		return nil
	}
	out := map[string]v2t.AttributeValue{}
	for k, v := range m {
		out[l2b(k)] = toV2(v.(map[string]interface{}))
	}
	return out
}

func bstrs(l [][]byte) []interface{} {
	out := []interface{}{}
	for _, b := range l {
		out = append(out, b2l(string(b)))
	}
	return out
}

func sstrs(l []string) []interface{} {
	out := []interface{}{}
	for _, b := range l {
		out = append(out, b2l(b))
	}
	return out
}

func fromV2(a v2t.AttributeValue) AV {
	switch v := a.(type) {
	case *v2t.AttributeValueMemberS:
		return AV{"S": b2l(v.Value)}
	case *v2t.AttributeValueMemberN:
		return AV{"N": b2l(v.Value)}
	case *v2t.AttributeValueMemberB:
		return AV{"B": b2l(string(v.Value))}
	case *v2t.AttributeValueMemberBOOL:
		return AV{"BOOL": v.Value}
	case *v2t.AttributeValueMemberNULL:
		return AV{"NULL": v.Value}
	case *v2t.AttributeValueMemberSS:
		return AV{"SS": sstrs(v.Value)}
	case *v2t.AttributeValueMemberNS:
		return AV{"NS": sstrs(v.Value)}
	case *v2t.AttributeValueMemberBS:
		return AV{"BS": bstrs(v.Value)}
	case *v2t.AttributeValueMemberL:
		l := []interface{}{}
		for _, e := range v.Value {
			l = append(l, fromV2(e))
		}
		return AV{"L": l}
	case *v2t.AttributeValueMemberM:
		return AV{"M": itemFromV2(v.Value)}
	}
	return AV{"NONE": true}
}

func itemFromV2(m map[string]v2t.AttributeValue) map[string]interface{} {
	out := map[string]interface{}{}
	for k, v := range m {
		out[b2l(k)] = fromV2(v)
	}
	return out
}

// ---------- SDK v1 ----------
func sp(s string) *string { return &s }

func toV1(a map[string]interface{}) *v1.AttributeValue {
	for k, v := range a {
		switch k {
		case "S":
			return &v1.AttributeValue{S: sp(l2b(v.(string)))}
		case "N":
			return &v1.AttributeValue{N: sp(l2b(v.(string)))}
		case "B":
			return &v1.AttributeValue{B: []byte(l2b(v.(string)))}
		case "BOOL":
			b := v.(bool)
			return &v1.AttributeValue{BOOL: &b}
		case "NULL":
			b := true
			if nb, isBool := v.(bool); isBool {
				b = nb // {"NULL": false} is sent as such
			}
			return &v1.AttributeValue{NULL: &b}
		case "SS", "NS":
			l := []*string{}
			for _, s := range strs(v) {
				l = append(l, sp(s))
			}
			if k == "SS" {
				return &v1.AttributeValue{SS: l}
			}
			return &v1.AttributeValue{NS: l}
		case "BS":
			bs := [][]byte{}
			for _, s := range strs(v) {
				bs = append(bs, []byte(s))
			}
			return &v1.AttributeValue{BS: bs}
		case "L":
			l := []*v1.AttributeValue{}
			for _, e := range v.([]interface{}) {
				l = append(l, toV1(e.(map[string]interface{})))
			}
			return &v1.AttributeValue{L: l}
		case "M":
			m := itemToV1(v.(map[string]interface{}))
			if m == nil {
				m = map[string]*v1.AttributeValue{}
			}
			return &v1.AttributeValue{M: m}
		}
	}
	panic("bad av")
}

func itemToV1(m map[string]interface{}) map[string]*v1.AttributeValue {
	if m == nil {
		return nil
	}
	out := map[string]*v1.AttributeValue{}
	for k, v := range m {
		out[l2b(k)] = toV1(v.(map[string]interface{}))
	}
	return out
}

func pstrs(l []*string) []interface{} {
	out := []interface{}{}
	for _, b := range l {
		if b == nil {
			out = append(out, "")
			continue
		}
		out = append(out, b2l(*b))
	}
	return out
}

func fromV1(v *v1.AttributeValue) AV {
	switch {
	case v == nil:
		return AV{"NONE": true}
	case v.S != nil:
		return AV{"S": b2l(*v.S)}
	case v.N != nil:
		return AV{"N": b2l(*v.N)}
	case v.BOOL != nil:
		return AV{"BOOL": *v.BOOL}
	case v.NULL != nil:
		return AV{"NULL": *v.NULL}
	case v.B != nil:
		return AV{"B": b2l(string(v.B))}
	case v.L != nil:
		l := []interface{}{}
		for _, e := range v.L {
			l = append(l, fromV1(e))
		}
		return AV{"L": l}
	case v.M != nil:
		return AV{"M": itemFromV1(v.M)}
	case v.SS != nil:
		return AV{"SS": pstrs(v.SS)}
	case v.NS != nil:
		return AV{"NS": pstrs(v.NS)}
	case v.BS != nil:
		return AV{"BS": bstrs(v.BS)}
	}
	return AV{"NONE": true}
}

func itemFromV1(m map[string]*v1.AttributeValue) map[string]interface{} {
	out := map[string]interface{}{}
	for k, v := range m {
		out[b2l(k)] = fromV1(v)
	}
	return out
}

// ---------- internal types.Item (state dumps, interpreter-level ops) ----------
func toMT(a map[string]interface{}) *mt.Item {
	for k, v := range a {
		switch k {
		case "S":
			return &mt.Item{S: sp(l2b(v.(string)))}
		case "N":
			return &mt.Item{N: sp(l2b(v.(string)))}
		case "B":
			return &mt.Item{B: []byte(l2b(v.(string)))}
		case "BOOL":
			b := v.(bool)
			return &mt.Item{BOOL: &b}
		case "NULL":
			b := true
			return &mt.Item{NULL: &b}
		case "SS", "NS":
			l := []*string{}
			for _, s := range strs(v) {
				l = append(l, sp(s))
			}
			if k == "SS" {
				return &mt.Item{SS: l}
			}
			return &mt.Item{NS: l}
		case "BS":
			bs := [][]byte{}
			for _, s := range strs(v) {
				bs = append(bs, []byte(s))
			}
			return &mt.Item{BS: bs}
		case "L":
			l := []*mt.Item{}
			for _, e := range v.([]interface{}) {
				l = append(l, toMT(e.(map[string]interface{})))
			}
			return &mt.Item{L: l}
		case "M":
			m := itemToMT(v.(map[string]interface{}))
			if m == nil {
				m = map[string]*mt.Item{}
			}
			return &mt.Item{M: m}
		}
	}
	panic("bad av")
}

func itemToMT(m map[string]interface{}) map[string]*mt.Item {
	if m == nil {
		return nil
	}
	out := map[string]*mt.Item{}
	for k, v := range m {
		out[l2b(k)] = toMT(v.(map[string]interface{}))
	}
	return out
}

func fromMT(v *mt.Item) AV {
	switch {
	case v == nil:
		return AV{"NONE": true}
	case v.S != nil:
		return AV{"S": b2l(*v.S)}
	case v.N != nil:
		return AV{"N": b2l(*v.N)}
	case v.BOOL != nil:
		return AV{"BOOL": *v.BOOL}
	case v.NULL != nil:
		return AV{"NULL": *v.NULL}
	case v.B != nil:
		return AV{"B": b2l(string(v.B))}
	case v.L != nil:
		l := []interface{}{}
		for _, e := range v.L {
			l = append(l, fromMT(e))
		}
		return AV{"L": l}
	case v.M != nil:
		return AV{"M": itemFromMT(v.M)}
	case v.SS != nil:
		return AV{"SS": pstrs(v.SS)}
	case v.NS != nil:
		return AV{"NS": pstrs(v.NS)}
	case v.BS != nil:
		return AV{"BS": bstrs(v.BS)}
	}
	return AV{"NONE": true}
}

func itemFromMT(m map[string]*mt.Item) map[string]interface{} {
	out := map[string]interface{}{}
	for k, v := range m {
		out[b2l(k)] = fromMT(v)
	}
	return out
}
