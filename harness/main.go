package main

import (
	"bufio"
	"encoding/json"
	"errors"
	"flag"
	"fmt"
	"os"
	"sort"

	"github.com/truora/minidyn/core"
	"github.com/truora/minidyn/interpreter"
)

type J = map[string]interface{}

type script struct {
	ID  string `json:"id"`
	Ops []J    `json:"ops"`
}

type result struct {
	ID  string `json:"id"`
	Obs []J    `json:"obs"`
}

// session holds the per-script state
type session struct {
	sdk     string
	v1      map[string]*v1Client
	v2      map[string]*v2Client
	fired   []interface{}
	wantDump bool
}

func str(op J, k string) string {
	v, ok := op[k]
	if !ok || v == nil {
		return ""
	}
	return l2b(v.(string))
}

func has(op J, k string) bool {
	v, ok := op[k]
	return ok && v != nil
}

func pstr(op J, k string) *string {
	if !has(op, k) {
		return nil
	}
	s := str(op, k)
	return &s
}

func obj(op J, k string) map[string]interface{} {
	v, ok := op[k]
	if !ok || v == nil {
		return nil
	}
	return v.(map[string]interface{})
}

func arr(op J, k string) []interface{} {
	v, ok := op[k]
	if !ok || v == nil {
		return nil
	}
	return v.([]interface{})
}

func names(op J) map[string]string {
	m := obj(op, "names")
	if m == nil {
		return nil
	}
	out := map[string]string{}
	for k, v := range m {
		out[l2b(k)] = l2b(v.(string))
	}
	return out
}

type coder interface{ Code() string }
type errorCoder interface{ ErrorCode() string }

func classOfCode(code string) string {
	switch code {
	case "ConditionalCheckFailedException":
		return "CondFailed"
	case "ResourceNotFoundException":
		return "NotFound"
	case "ResourceInUseException":
		return "InUse"
	case "InternalServerError":
		return "InternalServer"
	case "ValidationException":
		return "Validation"
	case "InvalidParameter", "ParamRequiredError", "ParamMinLenError", "ParamMinValueError":
		return "InvalidParam"
	}
	return "Other:" + code
}

func classify(err error, forced error) string {
	if err == nil {
		return "ok"
	}
	if forced != nil && errors.Is(err, forced) {
		return "ForcedFailure"
	}
	var ec errorCoder
	if errors.As(err, &ec) {
		return classOfCode(ec.ErrorCode())
	}
	var c coder
	if errors.As(err, &c) {
		return classOfCode(c.Code())
	}
	if errors.Is(err, interpreter.ErrSyntaxError) {
		return "Syntax"
	}
	if errors.Is(err, interpreter.ErrUnsupportedFeature) {
		return "Unsupported"
	}
	return "Other:" + err.Error()
}

func classifyPanic(r interface{}) string {
	if err, ok := r.(error); ok {
		if errors.Is(err, interpreter.ErrSyntaxError) {
			return "SyntaxPanic"
		}
		if errors.Is(err, interpreter.ErrUnsupportedFeature) {
			return "UnsupportedPanic"
		}
	}
	return "RuntimePanic"
}

func dumpTables(tables map[string]*core.Table) J {
	out := J{}
	for name, t := range tables {
		d := core.VerifDump(t)
		data := J{}
		for k, it := range d.Data {
			data[b2l(k)] = itemFromMT(it)
		}
		ixs := J{}
		for _, ix := range d.Indexes {
			refs := J{}
			for k, v := range ix.Refs {
				refs[b2l(k)] = b2l(v)
			}
			ixs[b2l(ix.Name)] = J{"type": ix.Type, "hash": b2l(ix.HashKey), "range": b2l(ix.RangeKey), "sorted": sstrs(ix.SortedKeys), "refs": refs}
		}
		defs := J{}
		for k, v := range d.AttributesDef {
			defs[b2l(k)] = v
		}
		out[b2l(name)] = J{"hash": b2l(d.HashKey), "range": b2l(d.RangeKey), "defs": defs, "sorted": sstrs(d.SortedKeys), "data": data, "indexes": ixs, "native": d.UseNative}
	}
	return out
}

func (s *session) run(op J) (out J) {
	s.fired = []interface{}{}
	defer func() {
		if r := recover(); r != nil {
			out = J{"r": classifyPanic(r), "panic": fmt.Sprint(r)}
		}
		if len(s.fired) > 0 {
			out["fired"] = s.fired
		}
		if s.wantDump {
			out["state"] = s.dump(str(op, "client"))
		}
	}()

	name := op["op"].(string)
	if f, ok := unitOps[name]; ok {
		return f(op)
	}
	if s.sdk == "v1" {
		return s.runV1(name, op)
	}
	return s.runV2(name, op)
}

func (s *session) dump(client string) J {
	if s.sdk == "v1" {
		if c, ok := s.v1[client]; ok {
			return c.dump()
		}
		return J{}
	}
	if c, ok := s.v2[client]; ok {
		return c.dump()
	}
	return J{}
}

func sortedNames(m map[string]interface{}) []string {
	ks := []string{}
	for k := range m {
		ks = append(ks, k)
	}
	sort.Strings(ks)
	return ks
}

func main() {
	sdk := flag.String("sdk", "v2", "v1 or v2")
	in := flag.String("in", "", "scripts (JSON lines, one script per line)")
	out := flag.String("out", "", "observations (JSON lines)")
	dump := flag.Bool("dump", false, "attach the internal state after every op")
	flag.Parse()

	fin, err := os.Open(*in)
	if err != nil {
		panic(err)
	}
	defer fin.Close()
	fout, err := os.Create(*out)
	if err != nil {
		panic(err)
	}
	defer fout.Close()
	w := bufio.NewWriter(fout)
	defer w.Flush()
	// progress marks (script id, operation index) written before every operation: when the library kills the process
	// (fatal error: stack overflow, concurrent map writes, ...) the driver can name the operation that did it
	var progress *os.File
	if p := os.Getenv("VERIF_PROGRESS"); p != "" {
		if f, err := os.Create(p); err == nil {
			progress = f
			defer f.Close()
		}
	}
	mark := func(id string, i int) {
		if progress != nil {
			fmt.Fprintf(progress, "%s\t%d\n", id, i)
		}
	}

	sc := bufio.NewScanner(fin)
	sc.Buffer(make([]byte, 1<<20), 1<<28)
	for sc.Scan() {
		line := sc.Bytes()
		if len(line) == 0 {
			continue
		}
		var scr script
		if err := json.Unmarshal(line, &scr); err != nil {
			panic(err)
		}
		s := &session{sdk: *sdk, v1: map[string]*v1Client{}, v2: map[string]*v2Client{}, wantDump: *dump}
		res := result{ID: scr.ID}
		for opIndex, op := range scr.Ops {
			mark(scr.ID, opIndex)
			// "key": {"$lek": k, "attrs": [...]} stands for the item named by the LastEvaluatedKey observed at step k
			// (its attributes listed in attrs: the key attributes of the table)
			if e, ok := op["key"].(map[string]interface{}); ok {
				if k, ok := e["$lek"].(float64); ok {
					key := map[string]interface{}{}
					if int(k) < len(res.Obs) {
						if raw, err := json.Marshal(res.Obs[int(k)]["lek"]); err == nil {
							var plain map[string]interface{}
							if json.Unmarshal(raw, &plain) == nil {
								for _, a := range e["attrs"].([]interface{}) {
									if v, ok := plain[a.(string)]; ok {
										key[a.(string)] = v
									}
								}
							}
						}
					}
					op["key"] = key
					o := s.run(op)
					o["resolved_key"] = key
					res.Obs = append(res.Obs, o)
					continue
				}
			}
			// "esk": {"$lek": k} stands for the LastEvaluatedKey observed at step k
			if e, ok := op["esk"].(map[string]interface{}); ok {
				if k, ok := e["$lek"].(float64); ok {
					var lek interface{}
					if int(k) < len(res.Obs) {
						lek = res.Obs[int(k)]["lek"]
					}
					if lek == nil {
						lek = map[string]interface{}{}
					}
					// plain JSON shape (the observation holds typed values)
					if raw, err := json.Marshal(lek); err == nil {
						var plain map[string]interface{}
						if json.Unmarshal(raw, &plain) == nil {
							lek = plain
						}
					}
					op["esk"] = lek
					o := s.run(op)
					o["resolved_esk"] = lek
					res.Obs = append(res.Obs, o)
					continue
				}
			}
			res.Obs = append(res.Obs, s.run(op))
		}
		b, err := json.Marshal(res)
		if err != nil {
			panic(err)
		}
		w.Write(b)
		w.WriteByte('\n')
		w.Flush()
	}
}
