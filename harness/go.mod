module verifharness

go 1.20

require (
	github.com/aws/aws-sdk-go v1.40.12
	github.com/aws/aws-sdk-go-v2 v1.25.0
	github.com/aws/aws-sdk-go-v2/service/dynamodb v1.29.0
	github.com/truora/minidyn v0.0.0
)

require (
	github.com/aws/aws-sdk-go-v2/internal/configsources v1.3.0 // indirect
	github.com/aws/aws-sdk-go-v2/internal/endpoints/v2 v2.6.0 // indirect
	github.com/aws/aws-sdk-go-v2/service/internal/accept-encoding v1.11.0 // indirect
	github.com/aws/aws-sdk-go-v2/service/internal/endpoint-discovery v1.9.0 // indirect
	github.com/aws/smithy-go v1.20.0 // indirect
	github.com/jmespath/go-jmespath v0.4.0 // indirect
)

replace github.com/truora/minidyn => /repo
