package main

// C14, key side of the poke matrix: the key structures that cross the API (the LastEvaluatedKey handed out by Scan and
// Query, the Key map of an UpdateItem that creates the item, the ExclusiveStartKey) are mutated after the call returned,
// for string, number and binary key attributes, and a later read of the whole table tells whether stored state changed.

import (
	"errors"
	"fmt"
	"sort"
	"strings"

	v2aws "github.com/aws/aws-sdk-go-v2/aws"
	ddb2 "github.com/aws/aws-sdk-go-v2/service/dynamodb"
	t2 "github.com/aws/aws-sdk-go-v2/service/dynamodb/types"
	"github.com/aws/aws-sdk-go/aws"
	ddb1 "github.com/aws/aws-sdk-go/service/dynamodb"
	c1 "github.com/truora/minidyn/aws-v1/client"
	c2 "github.com/truora/minidyn/aws-v2/client"
	mtypes "github.com/truora/minidyn/types"
)

var pokeKeyDirs = []string{"lek_scan_output", "lek_query_index_output", "update_key_input", "esk_input"}
var pokeKeyKinds = []string{"KS", "KN", "KB"}

func keyText(kind string, i int) string {
	if kind == "KN" {
		return fmt.Sprint(i)
	}
	return fmt.Sprintf("k%d", i)
}

// ---------- SDK v2 ----------
func v2Key(kind string, i int) t2.AttributeValue {
	switch kind {
	case "KN":
		return &t2.AttributeValueMemberN{Value: keyText(kind, i)}
	case "KB":
		return &t2.AttributeValueMemberB{Value: []byte(keyText(kind, i))}
	}
	return &t2.AttributeValueMemberS{Value: keyText(kind, i)}
}

func v2PokeKey(m map[string]t2.AttributeValue) {
	for name, v := range m {
		switch x := v.(type) {
		case *t2.AttributeValueMemberB:
			for i := range x.Value {
				x.Value[i] ^= 0x5a
			}
		case *t2.AttributeValueMemberS:
			x.Value = "POKED"
		case *t2.AttributeValueMemberN:
			x.Value = "424242"
		}
		_ = name
	}
	m["poked"] = &t2.AttributeValueMemberS{Value: "x"}
}

func v2All(cl *c2.Client) string {
	o, err := cl.Scan(ctx, &ddb2.ScanInput{TableName: v2aws.String("tbl")})
	if err != nil {
		return "ERR " + err.Error()
	}
	l := []string{}
	for _, it := range o.Items {
		l = append(l, canonString(itemFromV2(it)))
	}
	sort.Strings(l)
	io, err := cl.Scan(ctx, &ddb2.ScanInput{TableName: v2aws.String("tbl"), IndexName: v2aws.String("gix")})
	if err != nil {
		return "ERR " + err.Error()
	}
	return strings.Join(l, ";") + fmt.Sprint("|", len(io.Items))
}

func pokeKeyV2(dir, kind string) (visible bool, note string) {
	cl := c2.NewClient()
	typ := map[string]t2.ScalarAttributeType{"KS": "S", "KN": "N", "KB": "B"}[kind]
	_, err := cl.CreateTable(ctx, &ddb2.CreateTableInput{TableName: v2aws.String("tbl"), BillingMode: t2.BillingModePayPerRequest,
		AttributeDefinitions: []t2.AttributeDefinition{{AttributeName: v2aws.String("h"), AttributeType: typ}, {AttributeName: v2aws.String("g"), AttributeType: typ}},
		KeySchema:            []t2.KeySchemaElement{{AttributeName: v2aws.String("h"), KeyType: t2.KeyTypeHash}},
		GlobalSecondaryIndexes: []t2.GlobalSecondaryIndex{{IndexName: v2aws.String("gix"), KeySchema: []t2.KeySchemaElement{{AttributeName: v2aws.String("g"), KeyType: t2.KeyTypeHash}},
			Projection: &t2.Projection{ProjectionType: t2.ProjectionTypeAll}}}})
	if err != nil {
		return false, err.Error()
	}
	tn := v2aws.String("tbl")
	for i := 1; i <= 3; i++ {
		if _, err := cl.PutItem(ctx, &ddb2.PutItemInput{TableName: tn, Item: map[string]t2.AttributeValue{"h": v2Key(kind, i), "g": v2Key(kind, 7), "a": &t2.AttributeValueMemberS{Value: "x"}}}); err != nil {
			return false, err.Error()
		}
	}
	switch dir {
	case "lek_scan_output":
		o, err := cl.Scan(ctx, &ddb2.ScanInput{TableName: tn, Limit: v2aws.Int32(1)})
		if err != nil || o.LastEvaluatedKey == nil {
			return false, fmt.Sprint("no LastEvaluatedKey ", err)
		}
		before := v2All(cl)
		v2PokeKey(o.LastEvaluatedKey)
		return before != v2All(cl), ""
	case "lek_query_index_output":
		o, err := cl.Query(ctx, &ddb2.QueryInput{TableName: tn, IndexName: v2aws.String("gix"), Limit: v2aws.Int32(1), KeyConditionExpression: v2aws.String("g = :g"),
			ExpressionAttributeValues: map[string]t2.AttributeValue{":g": v2Key(kind, 7)}})
		if err != nil || o.LastEvaluatedKey == nil {
			return false, fmt.Sprint("no LastEvaluatedKey ", err)
		}
		before := v2All(cl)
		v2PokeKey(o.LastEvaluatedKey)
		return before != v2All(cl), ""
	case "update_key_input":
		key := map[string]t2.AttributeValue{"h": v2Key(kind, 9)}
		if _, err := cl.UpdateItem(ctx, &ddb2.UpdateItemInput{TableName: tn, Key: key, UpdateExpression: v2aws.String("SET a = :v"),
			ExpressionAttributeValues: map[string]t2.AttributeValue{":v": &t2.AttributeValueMemberS{Value: "new"}}}); err != nil {
			return false, err.Error()
		}
		before := v2All(cl)
		v2PokeKey(key)
		return before != v2All(cl), ""
	case "esk_input":
		esk := map[string]t2.AttributeValue{"h": v2Key(kind, 1)}
		if _, err := cl.Scan(ctx, &ddb2.ScanInput{TableName: tn, ExclusiveStartKey: esk, Limit: v2aws.Int32(1)}); err != nil {
			return false, err.Error()
		}
		before := v2All(cl)
		v2PokeKey(esk)
		return before != v2All(cl), ""
	}
	return false, "unknown direction"
}

// ---------- SDK v1 ----------
func v1Key(kind string, i int) *ddb1.AttributeValue {
	switch kind {
	case "KN":
		return &ddb1.AttributeValue{N: aws.String(keyText(kind, i))}
	case "KB":
		return &ddb1.AttributeValue{B: []byte(keyText(kind, i))}
	}
	return &ddb1.AttributeValue{S: aws.String(keyText(kind, i))}
}

func v1PokeKey(m map[string]*ddb1.AttributeValue) {
	for _, v := range m {
		if v == nil {
			continue
		}
		for i := range v.B {
			v.B[i] ^= 0x5a
		}
		if v.S != nil {
			*v.S = "POKED"
		}
		if v.N != nil {
			*v.N = "424242"
		}
	}
	m["poked"] = &ddb1.AttributeValue{S: aws.String("x")}
}

func v1All(cl *c1.Client) string {
	o, err := cl.Scan(&ddb1.ScanInput{TableName: aws.String("tbl")})
	if err != nil {
		return "ERR " + err.Error()
	}
	l := []string{}
	for _, it := range o.Items {
		l = append(l, canonString(itemFromV1(it)))
	}
	sort.Strings(l)
	io, err := cl.Scan(&ddb1.ScanInput{TableName: aws.String("tbl"), IndexName: aws.String("gix")})
	if err != nil {
		return "ERR " + err.Error()
	}
	return strings.Join(l, ";") + fmt.Sprint("|", len(io.Items))
}

func pokeKeyV1(dir, kind string) (visible bool, note string) {
	cl := c1.NewClient()
	typ := map[string]string{"KS": "S", "KN": "N", "KB": "B"}[kind]
	_, err := cl.CreateTable(&ddb1.CreateTableInput{TableName: aws.String("tbl"), BillingMode: aws.String("PAY_PER_REQUEST"),
		AttributeDefinitions: []*ddb1.AttributeDefinition{{AttributeName: aws.String("h"), AttributeType: aws.String(typ)}, {AttributeName: aws.String("g"), AttributeType: aws.String(typ)}},
		KeySchema:            []*ddb1.KeySchemaElement{{AttributeName: aws.String("h"), KeyType: aws.String("HASH")}},
		GlobalSecondaryIndexes: []*ddb1.GlobalSecondaryIndex{{IndexName: aws.String("gix"), KeySchema: []*ddb1.KeySchemaElement{{AttributeName: aws.String("g"), KeyType: aws.String("HASH")}},
			Projection: &ddb1.Projection{ProjectionType: aws.String("ALL")}}}})
	if err != nil {
		return false, err.Error()
	}
	tn := aws.String("tbl")
	for i := 1; i <= 3; i++ {
		if _, err := cl.PutItem(&ddb1.PutItemInput{TableName: tn, Item: map[string]*ddb1.AttributeValue{"h": v1Key(kind, i), "g": v1Key(kind, 7), "a": {S: aws.String("x")}}}); err != nil {
			return false, err.Error()
		}
	}
	switch dir {
	case "lek_scan_output":
		o, err := cl.Scan(&ddb1.ScanInput{TableName: tn, Limit: aws.Int64(1)})
		if err != nil || o.LastEvaluatedKey == nil {
			return false, fmt.Sprint("no LastEvaluatedKey ", err)
		}
		before := v1All(cl)
		v1PokeKey(o.LastEvaluatedKey)
		return before != v1All(cl), ""
	case "lek_query_index_output":
		o, err := cl.Query(&ddb1.QueryInput{TableName: tn, IndexName: aws.String("gix"), Limit: aws.Int64(1), KeyConditionExpression: aws.String("g = :g"),
			ExpressionAttributeValues: map[string]*ddb1.AttributeValue{":g": v1Key(kind, 7)}})
		if err != nil || o.LastEvaluatedKey == nil {
			return false, fmt.Sprint("no LastEvaluatedKey ", err)
		}
		before := v1All(cl)
		v1PokeKey(o.LastEvaluatedKey)
		return before != v1All(cl), ""
	case "update_key_input":
		key := map[string]*ddb1.AttributeValue{"h": v1Key(kind, 9)}
		if _, err := cl.UpdateItem(&ddb1.UpdateItemInput{TableName: tn, Key: key, UpdateExpression: aws.String("SET a = :v"),
			ExpressionAttributeValues: map[string]*ddb1.AttributeValue{":v": {S: aws.String("new")}}}); err != nil {
			return false, err.Error()
		}
		before := v1All(cl)
		v1PokeKey(key)
		return before != v1All(cl), ""
	case "esk_input":
		esk := map[string]*ddb1.AttributeValue{"h": v1Key(kind, 1)}
		if _, err := cl.Scan(&ddb1.ScanInput{TableName: tn, ExclusiveStartKey: esk, Limit: aws.Int64(1)}); err != nil {
			return false, err.Error()
		}
		before := v1All(cl)
		v1PokeKey(esk)
		return before != v1All(cl), ""
	}
	return false, "unknown direction"
}

// ---------- the item carried by a failed condition ----------
// A conditional PutItem / DeleteItem that fails hands an error value to the caller; when that error carries the stored item
// (ReturnValuesOnConditionCheckFailure, or a core error that reaches the caller unmapped) it is a structure returned by the
// library like any other: writing through it must not change what later reads return.

func mtPoke(kind string, item map[string]*mtypes.Item) {
	a := item["a"]
	if a == nil {
		item["a"] = &mtypes.Item{S: aws.String("POKED")}
		return
	}
	if a.S != nil {
		*a.S = "POKED"
	}
	if a.N != nil {
		*a.N = "424242"
	}
	if a.BOOL != nil {
		*a.BOOL = !*a.BOOL
	}
	if a.NULL != nil {
		*a.NULL = !*a.NULL
	}
	for i := range a.B {
		a.B[i] ^= 0x5a
	}
	for _, p := range a.SS {
		if p != nil {
			*p = "POKED"
		}
	}
	for _, p := range a.NS {
		if p != nil {
			*p = "424242"
		}
	}
	for _, b := range a.BS {
		for i := range b {
			b[i] ^= 0x5a
		}
	}
	for _, e := range a.L {
		if e != nil {
			if e.S != nil {
				*e.S = "POKED"
			}
			for i := range e.B {
				e.B[i] ^= 0x5a
			}
		}
	}
	if a.L != nil {
		a.L = append(a.L, &mtypes.Item{S: aws.String("POKED")})
		item["a"].L = a.L
	}
	for _, e := range a.M {
		if e != nil {
			if e.S != nil {
				*e.S = "POKED"
			}
			for i := range e.B {
				e.B[i] ^= 0x5a
			}
		}
	}
	if a.M != nil {
		a.M["poked"] = &mtypes.Item{S: aws.String("POKED")}
	}
	item["poked"] = &mtypes.Item{S: aws.String("x")}
}

func pokeCondV1(kind string, del bool) (visible bool, note string) {
	cl := c1.NewClient()
	if err := c1.AddTable(cl, "tbl", "h", ""); err != nil {
		return false, err.Error()
	}
	item := map[string]*ddb1.AttributeValue{"h": {S: aws.String("k")}, "a": v1Value(kind)}
	if _, err := cl.PutItem(&ddb1.PutItemInput{TableName: aws.String("tbl"), Item: item}); err != nil {
		return false, err.Error()
	}
	var err error
	if del {
		_, err = cl.DeleteItem(&ddb1.DeleteItemInput{TableName: aws.String("tbl"), Key: map[string]*ddb1.AttributeValue{"h": {S: aws.String("k")}},
			ConditionExpression: aws.String("attribute_not_exists(h)")})
	} else {
		_, err = cl.PutItem(&ddb1.PutItemInput{TableName: aws.String("tbl"), Item: map[string]*ddb1.AttributeValue{"h": {S: aws.String("k")}},
			ConditionExpression: aws.String("attribute_not_exists(h)")})
	}
	if err == nil {
		return false, "the conditional write did not fail"
	}
	before := v1Snapshot(cl)
	var cf *mtypes.ConditionalCheckFailedException
	if errors.As(err, &cf) && cf.Item != nil {
		mtPoke(kind, cf.Item)
	}
	return before != v1Snapshot(cl), ""
}

func pokeCondV2(kind string, del bool) (visible bool, note string) {
	cl := c2.NewClient()
	if err := c2.AddTable(ctx, cl, "tbl", "h", ""); err != nil {
		return false, err.Error()
	}
	key := map[string]t2.AttributeValue{"h": &t2.AttributeValueMemberS{Value: "k"}}
	if _, err := cl.PutItem(ctx, &ddb2.PutItemInput{TableName: v2aws.String("tbl"), Item: map[string]t2.AttributeValue{"h": key["h"], "a": v2Value(kind)}}); err != nil {
		return false, err.Error()
	}
	var err error
	if del {
		_, err = cl.DeleteItem(ctx, &ddb2.DeleteItemInput{TableName: v2aws.String("tbl"), Key: key, ConditionExpression: v2aws.String("attribute_not_exists(h)"),
			ReturnValuesOnConditionCheckFailure: t2.ReturnValuesOnConditionCheckFailureAllOld})
	} else {
		_, err = cl.PutItem(ctx, &ddb2.PutItemInput{TableName: v2aws.String("tbl"), Item: key, ConditionExpression: v2aws.String("attribute_not_exists(h)"),
			ReturnValuesOnConditionCheckFailure: t2.ReturnValuesOnConditionCheckFailureAllOld})
	}
	if err == nil {
		return false, "the conditional write did not fail"
	}
	before := v2Snapshot(cl)
	var cf *t2.ConditionalCheckFailedException
	if errors.As(err, &cf) && cf.Item != nil {
		v2Poke(kind, cf.Item)
	}
	var cfc *mtypes.ConditionalCheckFailedException
	if errors.As(err, &cfc) && cfc.Item != nil {
		mtPoke(kind, cfc.Item)
	}
	return before != v2Snapshot(cl), ""
}
