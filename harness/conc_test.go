//go:build verif

package main

// Concurrency checks for C11: run under the race detector (go test -race -tags verif -run TestConc).
// The schedule is whatever the Go runtime produces; what is asserted is independent of it:
// no data race report, no deadlock (the test finishes), and outcomes equal to some sequential order
// (N concurrent ADD 1 give N; exactly one of N racing attribute_not_exists puts wins; managing tables
// while data operations run never corrupts the catalogue).

import (
	"context"
	"errors"
	"fmt"
	"math/rand"
	"os"
	"runtime"
	"strconv"
	"sync"
	"sync/atomic"
	"testing"
	"time"

	"github.com/aws/aws-sdk-go-v2/aws"
	ddb2 "github.com/aws/aws-sdk-go-v2/service/dynamodb"
	t2 "github.com/aws/aws-sdk-go-v2/service/dynamodb/types"
	"github.com/aws/aws-sdk-go/aws/awserr"
	ddb1 "github.com/aws/aws-sdk-go/service/dynamodb"
	c1 "github.com/truora/minidyn/aws-v1/client"
	c2 "github.com/truora/minidyn/aws-v2/client"
	"github.com/truora/minidyn/interpreter"
	mt "github.com/truora/minidyn/types"
)

func budget() time.Duration {
	ms, _ := strconv.Atoi(os.Getenv("VERIF_RACE_MS"))
	if ms <= 0 {
		ms = 1500
	}
	return time.Duration(ms) * time.Millisecond
}

func seed() int64 {
	s, _ := strconv.ParseInt(os.Getenv("VERIF_SEED"), 10, 64)
	return s + 1
}

func TestConcV2Counter(t *testing.T) {
	cl := c2.NewClient()
	if err := c2.AddTable(ctx, cl, "tbl", "h", ""); err != nil {
		t.Fatal(err)
	}
	const n, per = 8, 50
	var wg sync.WaitGroup
	for g := 0; g < n; g++ {
		wg.Add(1)
		go func() {
			defer wg.Done()
			for i := 0; i < per; i++ {
				_, err := cl.UpdateItem(ctx, &ddb2.UpdateItemInput{TableName: aws.String("tbl"), Key: map[string]t2.AttributeValue{"h": &t2.AttributeValueMemberS{Value: "k"}},
					UpdateExpression: aws.String("ADD c :one"), ExpressionAttributeValues: map[string]t2.AttributeValue{":one": &t2.AttributeValueMemberN{Value: "1"}}})
				if err != nil {
					t.Error(err)
				}
			}
		}()
	}
	wg.Wait()
	o, err := cl.GetItem(ctx, &ddb2.GetItemInput{TableName: aws.String("tbl"), Key: map[string]t2.AttributeValue{"h": &t2.AttributeValueMemberS{Value: "k"}}})
	if err != nil {
		t.Fatal(err)
	}
	if got := o.Item["c"].(*t2.AttributeValueMemberN).Value; got != strconv.Itoa(n*per) {
		t.Fatalf("LINEARIZABILITY: %d concurrent ADD 1 gave %s", n*per, got)
	}
}

func TestConcV2OneWinner(t *testing.T) {
	cl := c2.NewClient()
	if err := c2.AddTable(ctx, cl, "tbl", "h", ""); err != nil {
		t.Fatal(err)
	}
	for round := 0; round < 30; round++ {
		var wins int32
		var wg sync.WaitGroup
		key := fmt.Sprintf("k%d", round)
		for g := 0; g < 8; g++ {
			wg.Add(1)
			go func(g int) {
				defer wg.Done()
				_, err := cl.PutItem(ctx, &ddb2.PutItemInput{TableName: aws.String("tbl"),
					Item:                map[string]t2.AttributeValue{"h": &t2.AttributeValueMemberS{Value: key}, "w": &t2.AttributeValueMemberN{Value: strconv.Itoa(g)}},
					ConditionExpression: aws.String("attribute_not_exists(h)")})
				var cf *t2.ConditionalCheckFailedException
				if err == nil {
					atomic.AddInt32(&wins, 1)
				} else if !errors.As(err, &cf) {
					t.Error(err)
				}
			}(g)
		}
		wg.Wait()
		if wins != 1 {
			t.Fatalf("LINEARIZABILITY: %d of 8 racing attribute_not_exists puts succeeded", wins)
		}
	}
}

// every kind of call, concurrently, including table management, batch calls, ClearTable and failure toggling
func TestConcV2Mix(t *testing.T) {
	cl := c2.NewClient()
	_ = c2.AddTable(ctx, cl, "tbl", "h", "")
	deadline := time.Now().Add(budget())
	var wg sync.WaitGroup
	for g := 0; g < 8; g++ {
		wg.Add(1)
		go func(g int) {
			defer wg.Done()
			defer func() { _ = recover() }()
			r := rand.New(rand.NewSource(seed()*100 + int64(g)))
			S := func(s string) t2.AttributeValue { return &t2.AttributeValueMemberS{Value: s} }
			for time.Now().Before(deadline) {
				tn := aws.String([]string{"tbl", "tb2"}[r.Intn(2)])
				k := map[string]t2.AttributeValue{"h": S(fmt.Sprint(r.Intn(4)))}
				func() {
					defer func() { _ = recover() }()
					switch r.Intn(19) {
					case 0:
						_ = c2.AddTable(ctx, cl, *tn, "h", "")
					case 1:
						_, _ = cl.DeleteTable(ctx, &ddb2.DeleteTableInput{TableName: tn})
					case 2:
						_ = c2.AddIndex(ctx, cl, *tn, "gix", "g", "")
					case 3:
						_, _ = cl.DescribeTable(ctx, &ddb2.DescribeTableInput{TableName: tn})
					case 4:
						_ = c2.ClearTable(cl, *tn)
					case 5:
						c2.EmulateFailure(cl, c2.FailureConditionInternalServerError)
						c2.EmulateFailure(cl, c2.FailureConditionNone)
					case 6:
						_, _ = cl.BatchWriteItem(ctx, &ddb2.BatchWriteItemInput{RequestItems: map[string][]t2.WriteRequest{*tn: {{PutRequest: &t2.PutRequest{Item: k}}}}})
					case 7:
						_, _ = cl.BatchGetItem(ctx, &ddb2.BatchGetItemInput{RequestItems: map[string]t2.KeysAndAttributes{*tn: {Keys: []map[string]t2.AttributeValue{k}}}})
					case 8:
						_, _ = cl.TransactWriteItems(ctx, &ddb2.TransactWriteItemsInput{})
					case 9:
						_, _ = cl.Scan(ctx, &ddb2.ScanInput{TableName: tn})
					case 10:
						_, _ = cl.Query(ctx, &ddb2.QueryInput{TableName: tn, KeyConditionExpression: aws.String("h = :h"), ExpressionAttributeValues: map[string]t2.AttributeValue{":h": k["h"]}})
					case 11:
						_, _ = cl.DeleteItem(ctx, &ddb2.DeleteItemInput{TableName: tn, Key: k})
					case 12:
						_, _ = cl.GetItem(ctx, &ddb2.GetItemInput{TableName: tn, Key: k})
					case 13:
						_, _ = cl.UpdateItem(ctx, &ddb2.UpdateItemInput{TableName: tn, Key: k, UpdateExpression: aws.String("SET g = :g"), ExpressionAttributeValues: map[string]t2.AttributeValue{":g": S("x")}})
					case 14:
						cl.ActivateNativeInterpreter()
						_ = cl.GetNativeInterpreter()
					case 15:
						_, _ = cl.Query(ctx, &ddb2.QueryInput{TableName: tn, IndexName: aws.String("gix"), KeyConditionExpression: aws.String("g = :g"), ExpressionAttributeValues: map[string]t2.AttributeValue{":g": S(fmt.Sprint(r.Intn(3)))}})
					case 16:
						_, _ = cl.Scan(ctx, &ddb2.ScanInput{TableName: tn, IndexName: aws.String("gix")})
					default:
						it := map[string]t2.AttributeValue{"h": k["h"], "g": S(fmt.Sprint(r.Intn(3)))}
						_, _ = cl.PutItem(ctx, &ddb2.PutItemInput{TableName: tn, Item: it})
					}
				}()
			}
		}(g)
	}
	wg.Wait()
}

func TestConcV1Mix(t *testing.T) {
	cl := c1.NewClient()
	_ = c1.AddTable(cl, "tbl", "h", "")
	deadline := time.Now().Add(budget())
	var wg sync.WaitGroup
	for g := 0; g < 8; g++ {
		wg.Add(1)
		go func(g int) {
			defer wg.Done()
			r := rand.New(rand.NewSource(seed()*100 + int64(g)))
			S := func(s string) *ddb1.AttributeValue { return &ddb1.AttributeValue{S: aws.String(s)} }
			for time.Now().Before(deadline) {
				tn := aws.String([]string{"tbl", "tb2"}[r.Intn(2)])
				k := map[string]*ddb1.AttributeValue{"h": S(fmt.Sprint(r.Intn(4)))}
				func() {
					defer func() { _ = recover() }()
					switch r.Intn(17) {
					case 0:
						_ = c1.AddTable(cl, *tn, "h", "")
					case 1:
						_, _ = cl.DeleteTable(&ddb1.DeleteTableInput{TableName: tn})
					case 2:
						_ = c1.AddIndex(cl, *tn, "gix", "g", "")
					case 3:
						_, _ = cl.DescribeTable(&ddb1.DescribeTableInput{TableName: tn})
					case 4:
						_ = c1.ClearTable(cl, *tn)
					case 5:
						c1.EmulateFailure(cl, c1.FailureConditionInternalServerError)
						c1.EmulateFailure(cl, c1.FailureConditionNone)
					case 6:
						_, _ = cl.BatchWriteItem(&ddb1.BatchWriteItemInput{RequestItems: map[string][]*ddb1.WriteRequest{*tn: {{PutRequest: &ddb1.PutRequest{Item: k}}}}})
					case 7:
						_, _ = cl.TransactWriteItems(&ddb1.TransactWriteItemsInput{})
					case 8:
						_, _ = cl.Scan(&ddb1.ScanInput{TableName: tn})
					case 9:
						_, _ = cl.Query(&ddb1.QueryInput{TableName: tn, KeyConditionExpression: aws.String("h = :h"), ExpressionAttributeValues: map[string]*ddb1.AttributeValue{":h": k["h"]}})
					case 10:
						_, _ = cl.DeleteItem(&ddb1.DeleteItemInput{TableName: tn, Key: k})
					case 11:
						_, _ = cl.GetItem(&ddb1.GetItemInput{TableName: tn, Key: k})
					case 12:
						_, _ = cl.UpdateItem(&ddb1.UpdateItemInput{TableName: tn, Key: k, UpdateExpression: aws.String("SET g = :g"), ExpressionAttributeValues: map[string]*ddb1.AttributeValue{":g": S("x")}})
					case 13:
						_, _ = cl.Query(&ddb1.QueryInput{TableName: tn, IndexName: aws.String("gix"), KeyConditionExpression: aws.String("g = :g"), ExpressionAttributeValues: map[string]*ddb1.AttributeValue{":g": S(fmt.Sprint(r.Intn(3)))}})
					case 14:
						_, _ = cl.Scan(&ddb1.ScanInput{TableName: tn, IndexName: aws.String("gix")})
					default:
						it := map[string]*ddb1.AttributeValue{"h": k["h"], "g": S(fmt.Sprint(r.Intn(3)))}
						_, _ = cl.PutItem(&ddb1.PutItemInput{TableName: tn, Item: it})
					}
				}()
			}
		}(g)
	}
	wg.Wait()
}

func TestConcV1Counter(t *testing.T) {
	cl := c1.NewClient()
	if err := c1.AddTable(cl, "tbl", "h", ""); err != nil {
		t.Fatal(err)
	}
	const n, per = 8, 50
	var wg sync.WaitGroup
	var wins int32
	for g := 0; g < n; g++ {
		wg.Add(1)
		go func(g int) {
			defer wg.Done()
			for i := 0; i < per; i++ {
				_, err := cl.UpdateItem(&ddb1.UpdateItemInput{TableName: aws.String("tbl"), Key: map[string]*ddb1.AttributeValue{"h": {S: aws.String("k")}},
					UpdateExpression: aws.String("ADD c :one"), ExpressionAttributeValues: map[string]*ddb1.AttributeValue{":one": {N: aws.String("1")}}})
				if err != nil {
					t.Error(err)
				}
			}
			_, err := cl.PutItem(&ddb1.PutItemInput{TableName: aws.String("tbl"), Item: map[string]*ddb1.AttributeValue{"h": {S: aws.String("once")}},
				ConditionExpression: aws.String("attribute_not_exists(h)")})
			var ae awserr.Error
			if err == nil {
				atomic.AddInt32(&wins, 1)
			} else if !errors.As(err, &ae) || ae.Code() != "ConditionalCheckFailedException" {
				t.Error(err)
			}
		}(g)
	}
	wg.Wait()
	o, err := cl.GetItem(&ddb1.GetItemInput{TableName: aws.String("tbl"), Key: map[string]*ddb1.AttributeValue{"h": {S: aws.String("k")}}})
	if err != nil {
		t.Fatal(err)
	}
	if got := *o.Item["c"].N; got != strconv.Itoa(n*per) {
		t.Fatalf("LINEARIZABILITY: %d concurrent ADD 1 gave %s", n*per, got)
	}
	if wins != 1 {
		t.Fatalf("LINEARIZABILITY: %d of %d racing attribute_not_exists puts succeeded", wins, n)
	}
}

// readers only, on a table that never changes: every concurrent index Query/Scan returns the sequential answer
func TestConcV2IndexReaders(t *testing.T) {
	cl := c2.NewClient()
	if err := c2.AddTable(ctx, cl, "tbl", "h", ""); err != nil {
		t.Fatal(err)
	}
	if err := c2.AddIndex(ctx, cl, "tbl", "gix", "g", ""); err != nil {
		t.Fatal(err)
	}
	S := func(s string) t2.AttributeValue { return &t2.AttributeValueMemberS{Value: s} }
	for i := 0; i < 24; i++ {
		_, err := cl.PutItem(ctx, &ddb2.PutItemInput{TableName: aws.String("tbl"), Item: map[string]t2.AttributeValue{"h": S(fmt.Sprintf("k%02d", i)), "g": S(fmt.Sprint(i % 3))}})
		if err != nil {
			t.Fatal(err)
		}
	}
	render := func(items []map[string]t2.AttributeValue) string {
		out := ""
		for _, it := range items {
			out += it["h"].(*t2.AttributeValueMemberS).Value + ","
		}
		return out
	}
	query := func() (string, error) {
		defer func() { _ = recover() }()
		o, err := cl.Query(ctx, &ddb2.QueryInput{TableName: aws.String("tbl"), IndexName: aws.String("gix"), KeyConditionExpression: aws.String("g = :g"), ExpressionAttributeValues: map[string]t2.AttributeValue{":g": S("1")}})
		if err != nil {
			return "", err
		}
		return render(o.Items), nil
	}
	scan := func() (string, error) {
		defer func() { _ = recover() }()
		o, err := cl.Scan(ctx, &ddb2.ScanInput{TableName: aws.String("tbl"), IndexName: aws.String("gix")})
		if err != nil {
			return "", err
		}
		return render(o.Items), nil
	}
	wantQ, _ := query()
	wantS, _ := scan()
	if wantQ == "" || wantS == "" {
		t.Fatal("empty sequential answer")
	}
	var wg sync.WaitGroup
	var bad int32
	for g := 0; g < 8; g++ {
		wg.Add(1)
		go func(g int) {
			defer wg.Done()
			for i := 0; i < 150; i++ {
				if got, err := query(); err != nil || got != wantQ {
					atomic.AddInt32(&bad, 1)
				}
				if got, err := scan(); err != nil || got != wantS {
					atomic.AddInt32(&bad, 1)
				}
			}
		}(g)
	}
	wg.Wait()
	if bad != 0 {
		t.Fatalf("LINEARIZABILITY: %d concurrent index reads of an unchanging table differ from the sequential answer", bad)
	}
}

// racing CreateTable calls for one name: exactly one wins, and no acknowledged PutItem is lost
func TestConcV2CreateOneWinner(t *testing.T) {
	rounds := 300
	if budget() > 10*time.Second {
		rounds = 3000
	}
	S := func(s string) t2.AttributeValue { return &t2.AttributeValueMemberS{Value: s} }
	for round := 0; round < rounds; round++ {
		cl := c2.NewClient()
		const n = 16
		var wins, puts, ready int32
		var wg sync.WaitGroup
		for g := 0; g < n; g++ {
			wg.Add(1)
			go func(g int) {
				defer wg.Done()
				atomic.AddInt32(&ready, 1)
				for atomic.LoadInt32(&ready) < n {
					runtime.Gosched()
				}
				if err := c2.AddTable(ctx, cl, "tbl", "h", ""); err == nil {
					atomic.AddInt32(&wins, 1)
				}
				if _, err := cl.PutItem(ctx, &ddb2.PutItemInput{TableName: aws.String("tbl"), Item: map[string]t2.AttributeValue{"h": S(fmt.Sprint(g))}}); err == nil {
					atomic.AddInt32(&puts, 1)
				}
			}(g)
		}
		wg.Wait()
		o, err := cl.Scan(ctx, &ddb2.ScanInput{TableName: aws.String("tbl")})
		if err != nil {
			t.Fatal(err)
		}
		if wins != 1 || int(puts) != len(o.Items) {
			t.Fatalf("LINEARIZABILITY: round %d: %d of %d racing CreateTable calls succeeded; %d acknowledged puts, %d items stored", round, wins, n, puts, len(o.Items))
		}
	}
}

func TestConcV1CreateOneWinner(t *testing.T) {
	rounds := 300
	if budget() > 10*time.Second {
		rounds = 3000
	}
	for round := 0; round < rounds; round++ {
		cl := c1.NewClient()
		const n = 16
		var wins, puts, ready int32
		var wg sync.WaitGroup
		for g := 0; g < n; g++ {
			wg.Add(1)
			go func(g int) {
				defer wg.Done()
				atomic.AddInt32(&ready, 1)
				for atomic.LoadInt32(&ready) < n {
					runtime.Gosched()
				}
				if err := c1.AddTable(cl, "tbl", "h", ""); err == nil {
					atomic.AddInt32(&wins, 1)
				}
				if _, err := cl.PutItem(&ddb1.PutItemInput{TableName: aws.String("tbl"), Item: map[string]*ddb1.AttributeValue{"h": {S: aws.String(fmt.Sprint(g))}}}); err == nil {
					atomic.AddInt32(&puts, 1)
				}
			}(g)
		}
		wg.Wait()
		o, err := cl.Scan(&ddb1.ScanInput{TableName: aws.String("tbl")})
		if err != nil {
			t.Fatal(err)
		}
		if wins != 1 || int(puts) != len(o.Items) {
			t.Fatalf("LINEARIZABILITY: round %d: %d of %d racing CreateTable calls succeeded; %d acknowledged puts, %d items stored", round, wins, n, puts, len(o.Items))
		}
	}
}

var _ = context.Background

// A write races with "failure on, then ClearTable": whatever the interleaving, the write either took effect before the
// failure was switched on - then ClearTable, issued later, removed its item - or it was refused. The failure stays on
// until every writer has returned, so the table is empty at the end of every round. An item left over means a write
// was applied while the client was emulating a failure: no sequential order of the calls explains that (a call that
// looks at the failure in one critical section and writes in another).
func failureThenClear(t *testing.T, write func(i int) error, on, off func(), clear func() error, count func() (int, error)) {
	var sink int64
	deadline := time.Now().Add(budget())
	applied, refused := 0, 0
	const writers = 4
	for round := 0; time.Now().Before(deadline); round++ {
		done := make(chan error, writers)
		for i := 0; i < writers; i++ {
			go func(i int) { done <- write(i) }(i)
		}
		// let the writers get a varying distance into their calls
		for spin := 0; spin < round%512; spin++ {
			atomic.AddInt64(&sink, 1)
		}
		on()
		if err := clear(); err != nil {
			t.Fatal(err)
		}
		for i := 0; i < writers; i++ {
			if err := <-done; err == nil {
				applied++
			} else {
				refused++
			}
		}
		off()
		n, err := count()
		if err != nil {
			t.Fatal(err)
		}
		if n != 0 {
			t.Fatalf("LINEARIZABILITY: round %d: %d item(s) written after the failure was switched on and the table cleared (%d writes applied in time, %d refused so far)", round, n, applied, refused)
		}
	}
	t.Logf("%d writes applied before the failure, %d refused", applied, refused)
}

func TestConcV1FailureThenClear(t *testing.T) {
	cl := c1.NewClient()
	if err := c1.AddTable(cl, "tbl", "h", ""); err != nil {
		t.Fatal(err)
	}
	write := func(i int) error {
		key := map[string]*ddb1.AttributeValue{"h": {S: aws.String(fmt.Sprintf("k%d", i))}}
		switch i % 3 {
		case 0:
			_, err := cl.PutItem(&ddb1.PutItemInput{TableName: aws.String("tbl"), Item: key})
			return err
		case 1:
			_, err := cl.BatchWriteItem(&ddb1.BatchWriteItemInput{RequestItems: map[string][]*ddb1.WriteRequest{"tbl": {{PutRequest: &ddb1.PutRequest{Item: key}}}}})
			return err
		}
		_, err := cl.UpdateItem(&ddb1.UpdateItemInput{TableName: aws.String("tbl"), Key: key, UpdateExpression: aws.String("ADD c :one"),
			ExpressionAttributeValues: map[string]*ddb1.AttributeValue{":one": {N: aws.String("1")}}})
		return err
	}
	failureThenClear(t, write,
		func() { c1.EmulateFailure(cl, c1.FailureConditionDeprecated) }, func() { c1.EmulateFailure(cl, c1.FailureConditionNone) },
		func() error { return c1.ClearTable(cl, "tbl") },
		func() (int, error) {
			o, err := cl.Scan(&ddb1.ScanInput{TableName: aws.String("tbl")})
			if err != nil {
				return 0, err
			}
			return len(o.Items), nil
		})
}

func TestConcV2FailureThenClear(t *testing.T) {
	cl := c2.NewClient()
	if err := c2.AddTable(ctx, cl, "tbl", "h", ""); err != nil {
		t.Fatal(err)
	}
	write := func(i int) error {
		key := map[string]t2.AttributeValue{"h": &t2.AttributeValueMemberS{Value: fmt.Sprintf("k%d", i)}}
		switch i % 3 {
		case 0:
			_, err := cl.PutItem(ctx, &ddb2.PutItemInput{TableName: aws.String("tbl"), Item: key})
			return err
		case 1:
			_, err := cl.BatchWriteItem(ctx, &ddb2.BatchWriteItemInput{RequestItems: map[string][]t2.WriteRequest{"tbl": {{PutRequest: &t2.PutRequest{Item: key}}}}})
			return err
		}
		_, err := cl.UpdateItem(ctx, &ddb2.UpdateItemInput{TableName: aws.String("tbl"), Key: key, UpdateExpression: aws.String("ADD c :one"),
			ExpressionAttributeValues: map[string]t2.AttributeValue{":one": &t2.AttributeValueMemberN{Value: "1"}}})
		return err
	}
	failureThenClear(t, write,
		func() { c2.EmulateFailure(cl, c2.FailureConditionDeprecated) }, func() { c2.EmulateFailure(cl, c2.FailureConditionNone) },
		func() error { return c2.ClearTable(cl, "tbl") },
		func() (int, error) {
			o, err := cl.Scan(ctx, &ddb2.ScanInput{TableName: aws.String("tbl")})
			if err != nil {
				return 0, err
			}
			return len(o.Items), nil
		})
}

// Registering native matchers / updaters while operations evaluate expressions through the registry: no race, and the
// client keeps making progress (a reader that takes the registry lock twice dead-locks against a waiting writer).
func TestConcV2NativeRegistry(t *testing.T) {
	cl := c2.NewClient()
	cl.ActivateNativeInterpreter()
	if err := c2.AddTable(ctx, cl, "tbl", "h", ""); err != nil {
		t.Fatal(err)
	}
	for i := 0; i < 8; i++ {
		_, _ = cl.PutItem(ctx, &ddb2.PutItemInput{TableName: aws.String("tbl"), Item: map[string]t2.AttributeValue{"h": &t2.AttributeValueMemberS{Value: fmt.Sprint("k", i)}, "g": &t2.AttributeValueMemberS{Value: "v"}}})
	}
	ni := cl.GetNativeInterpreter()
	ni.AddMatcher("tbl", interpreter.ExpressionTypeFilter, "g = :v", func(item, attrs map[string]*mt.Item) bool { return true })
	ni.AddMatcher("tbl", interpreter.ExpressionTypeConditional, "g = :v", func(item, attrs map[string]*mt.Item) bool { return true })
	ni.AddUpdater("tbl", "SET g = :v", func(item, attrs map[string]*mt.Item) {})
	vals := map[string]t2.AttributeValue{":v": &t2.AttributeValueMemberS{Value: "v"}}
	var progress int64
	stop := make(chan struct{})
	var wg sync.WaitGroup
	for g := 0; g < 3; g++ {
		wg.Add(1)
		go func(g int) {
			defer wg.Done()
			for i := 0; ; i++ {
				select {
				case <-stop:
					return
				default:
				}
				switch (i + g) % 3 {
				case 0:
					o, err := cl.Scan(ctx, &ddb2.ScanInput{TableName: aws.String("tbl"), FilterExpression: aws.String("g = :v"), ExpressionAttributeValues: vals})
					if err != nil || len(o.Items) != 8 {
						t.Errorf("LINEARIZABILITY: scan with a registered filter: %v items, %v", len(o.Items), err)
						return
					}
				case 1:
					_, _ = cl.UpdateItem(ctx, &ddb2.UpdateItemInput{TableName: aws.String("tbl"), Key: map[string]t2.AttributeValue{"h": &t2.AttributeValueMemberS{Value: "k0"}},
						UpdateExpression: aws.String("SET g = :v"), ConditionExpression: aws.String("g = :v"), ExpressionAttributeValues: vals})
				case 2:
					ni.AddMatcher("tbl", interpreter.ExpressionTypeFilter, fmt.Sprint("x", i%7, " = :v"), func(item, attrs map[string]*mt.Item) bool { return false })
					ni.AddUpdater("tbl", fmt.Sprint("SET x", i%5, " = :v"), func(item, attrs map[string]*mt.Item) {})
				}
				atomic.AddInt64(&progress, 1)
			}
		}(g)
	}
	deadline := time.Now().Add(budget())
	last, lastAt := int64(0), time.Now()
	for time.Now().Before(deadline) {
		time.Sleep(50 * time.Millisecond)
		if p := atomic.LoadInt64(&progress); p != last {
			last, lastAt = p, time.Now()
		} else if time.Since(lastAt) > 3*time.Second {
			t.Fatalf("DEADLOCK: no call completed for 3 s after %d calls (registering on the native interpreter while operations use it)", last)
		}
	}
	close(stop)
	done := make(chan struct{})
	go func() { wg.Wait(); close(done) }()
	select {
	case <-done:
	case <-time.After(5 * time.Second):
		t.Fatalf("DEADLOCK: the workers did not finish")
	}
}

// CreateTable reads the client's interpreter settings: racing it with ActivateNativeInterpreter / SetInterpreter on fresh
// clients lets the race detector see a read of those settings outside the client mutex.
func TestConcV1CreateVsSettings(t *testing.T) {
	deadline := time.Now().Add(budget() / 2)
	for round := 0; time.Now().Before(deadline); round++ {
		cl := c1.NewClient()
		var wg sync.WaitGroup
		wg.Add(3)
		go func() { defer wg.Done(); _ = c1.AddTable(cl, "tbl", "h", "") }()
		go func() { defer wg.Done(); cl.ActivateNativeInterpreter() }()
		go func() { defer wg.Done(); cl.SetInterpreter(interpreter.NewNativeInterpreter()) }()
		wg.Wait()
	}
}

func TestConcV2CreateVsSettings(t *testing.T) {
	deadline := time.Now().Add(budget() / 2)
	for round := 0; time.Now().Before(deadline); round++ {
		cl := c2.NewClient()
		var wg sync.WaitGroup
		wg.Add(3)
		go func() { defer wg.Done(); _ = c2.AddTable(ctx, cl, "tbl", "h", "") }()
		go func() { defer wg.Done(); cl.ActivateNativeInterpreter() }()
		go func() { defer wg.Done(); cl.SetInterpreter(interpreter.NewNativeInterpreter()) }()
		wg.Wait()
	}
}

// A call that ends in the library's documented panic (a malformed expression) must not leave the client locked: after the
// caller has recovered, other calls - from this and from other goroutines - go through. (A critical section that is left
// by a hand-written Unlock instead of a deferred one stays locked when the call panics.)
func panics(f func()) (p interface{}) {
	defer func() { p = recover() }()
	f()
	return nil
}

func within(t *testing.T, what string, f func()) {
	done := make(chan struct{})
	go func() { defer close(done); f() }()
	select {
	case <-done:
	case <-time.After(5 * time.Second):
		t.Fatalf("DEADLOCK: %s did not return within 5 s after an earlier call had panicked", what)
	}
}

func TestConcV2PanicLeavesClientUsable(t *testing.T) {
	cl := c2.NewClient()
	if err := c2.AddTable(ctx, cl, "tbl", "h", ""); err != nil {
		t.Fatal(err)
	}
	key := map[string]t2.AttributeValue{"h": &t2.AttributeValueMemberS{Value: "k"}}
	_, _ = cl.PutItem(ctx, &ddb2.PutItemInput{TableName: aws.String("tbl"), Item: key})
	bad := aws.String("h = = :v")
	vals := map[string]t2.AttributeValue{":v": &t2.AttributeValueMemberS{Value: "k"}}
	calls := map[string]func(){
		"Scan":       func() { _, _ = cl.Scan(ctx, &ddb2.ScanInput{TableName: aws.String("tbl"), FilterExpression: bad, ExpressionAttributeValues: vals}) },
		"Query":      func() { _, _ = cl.Query(ctx, &ddb2.QueryInput{TableName: aws.String("tbl"), KeyConditionExpression: bad, ExpressionAttributeValues: vals}) },
		"PutItem":    func() { _, _ = cl.PutItem(ctx, &ddb2.PutItemInput{TableName: aws.String("tbl"), Item: key, ConditionExpression: bad, ExpressionAttributeValues: vals}) },
		"DeleteItem": func() { _, _ = cl.DeleteItem(ctx, &ddb2.DeleteItemInput{TableName: aws.String("tbl"), Key: key, ConditionExpression: bad, ExpressionAttributeValues: vals}) },
		"UpdateItem": func() {
			_, _ = cl.UpdateItem(ctx, &ddb2.UpdateItemInput{TableName: aws.String("tbl"), Key: key, UpdateExpression: aws.String("SET a = :v"), ConditionExpression: bad, ExpressionAttributeValues: vals})
		},
	}
	for name, call := range calls {
		_ = panics(call)
		within(t, "GetItem after "+name, func() { _, _ = cl.GetItem(ctx, &ddb2.GetItemInput{TableName: aws.String("tbl"), Key: key}) })
	}
}

func TestConcV1PanicLeavesClientUsable(t *testing.T) {
	cl := c1.NewClient()
	if err := c1.AddTable(cl, "tbl", "h", ""); err != nil {
		t.Fatal(err)
	}
	key := map[string]*ddb1.AttributeValue{"h": {S: aws.String("k")}}
	_, _ = cl.PutItem(&ddb1.PutItemInput{TableName: aws.String("tbl"), Item: key})
	bad := aws.String("h = = :v")
	vals := map[string]*ddb1.AttributeValue{":v": {S: aws.String("k")}}
	calls := map[string]func(){
		"Scan":       func() { _, _ = cl.Scan(&ddb1.ScanInput{TableName: aws.String("tbl"), FilterExpression: bad, ExpressionAttributeValues: vals}) },
		"Query":      func() { _, _ = cl.Query(&ddb1.QueryInput{TableName: aws.String("tbl"), KeyConditionExpression: bad, ExpressionAttributeValues: vals}) },
		"PutItem":    func() { _, _ = cl.PutItem(&ddb1.PutItemInput{TableName: aws.String("tbl"), Item: key, ConditionExpression: bad, ExpressionAttributeValues: vals}) },
		"DeleteItem": func() { _, _ = cl.DeleteItem(&ddb1.DeleteItemInput{TableName: aws.String("tbl"), Key: key, ConditionExpression: bad, ExpressionAttributeValues: vals}) },
		"UpdateItem": func() {
			_, _ = cl.UpdateItem(&ddb1.UpdateItemInput{TableName: aws.String("tbl"), Key: key, UpdateExpression: aws.String("SET a = :v"), ConditionExpression: bad, ExpressionAttributeValues: vals})
		},
	}
	for name, call := range calls {
		_ = panics(call)
		within(t, "GetItem after "+name, func() { _, _ = cl.GetItem(&ddb1.GetItemInput{TableName: aws.String("tbl"), Key: key}) })
	}
}
