package main

// C14: the poke matrix. For every attribute-value kind and every direction (the item passed to PutItem, the values
// passed to UpdateItem, the items returned by GetItem / Query / UpdateItem) the caller-side structure is mutated
// at every mutable location after the call has returned, and a later read tells whether the stored state changed.

import (
	"fmt"
	"reflect"
	"sort"

	v2aws "github.com/aws/aws-sdk-go-v2/aws"
	ddb2 "github.com/aws/aws-sdk-go-v2/service/dynamodb"
	t2 "github.com/aws/aws-sdk-go-v2/service/dynamodb/types"
	"github.com/aws/aws-sdk-go/aws"
	ddb1 "github.com/aws/aws-sdk-go/service/dynamodb"
	c1 "github.com/truora/minidyn/aws-v1/client"
	c2 "github.com/truora/minidyn/aws-v2/client"
)

var pokeKinds = []string{"S", "N", "B", "BOOL", "NULL", "SS", "NS", "BS", "L", "M", "L.S", "L.B", "M.S", "M.B", "ITEM"}

// ---------- SDK v1 ----------
func v1Value(kind string) *ddb1.AttributeValue {
	switch kind {
	case "S":
		return &ddb1.AttributeValue{S: aws.String("orig")}
	case "N":
		return &ddb1.AttributeValue{N: aws.String("1")}
	case "B":
		return &ddb1.AttributeValue{B: []byte("orig")}
	case "BOOL":
		return &ddb1.AttributeValue{BOOL: aws.Bool(true)}
	case "NULL":
		return &ddb1.AttributeValue{NULL: aws.Bool(true)}
	case "SS":
		return &ddb1.AttributeValue{SS: []*string{aws.String("a"), aws.String("b")}}
	case "NS":
		return &ddb1.AttributeValue{NS: []*string{aws.String("1"), aws.String("2")}}
	case "BS":
		return &ddb1.AttributeValue{BS: [][]byte{[]byte("ab"), []byte("cd")}}
	case "L", "L.S", "L.B":
		return &ddb1.AttributeValue{L: []*ddb1.AttributeValue{{S: aws.String("orig")}, {B: []byte("orig")}}}
	case "M", "M.S", "M.B", "ITEM":
		return &ddb1.AttributeValue{M: map[string]*ddb1.AttributeValue{"s": {S: aws.String("orig")}, "b": {B: []byte("orig")}}}
	}
	panic(kind)
}

// mutate the caller-side value at the locations the kind names
func v1Poke(kind string, item map[string]*ddb1.AttributeValue) {
	v := item["a"]
	if v == nil {
		return
	}
	switch kind {
	case "S":
		*v.S = "POKED"
	case "N":
		*v.N = "99"
	case "B":
		v.B[0] = 'X'
	case "BOOL":
		*v.BOOL = false
	case "NULL":
		*v.NULL = false
	case "SS":
		*v.SS[0] = "POKED"
	case "NS":
		*v.NS[0] = "99"
	case "BS":
		v.BS[0][0] = 'X'
	case "L":
		v.L[0] = &ddb1.AttributeValue{S: aws.String("POKED")}
	case "L.S":
		*v.L[0].S = "POKED"
	case "L.B":
		v.L[1].B[0] = 'X'
	case "M":
		v.M["s"] = &ddb1.AttributeValue{S: aws.String("POKED")}
		v.M["new"] = &ddb1.AttributeValue{S: aws.String("POKED")}
	case "M.S":
		*v.M["s"].S = "POKED"
	case "M.B":
		v.M["b"].B[0] = 'X'
	case "ITEM":
		item["a"] = &ddb1.AttributeValue{S: aws.String("POKED")}
		item["new"] = &ddb1.AttributeValue{S: aws.String("POKED")}
	}
}

func v1Snapshot(cl *c1.Client) string {
	o, err := cl.GetItem(&ddb1.GetItemInput{TableName: aws.String("tbl"), Key: map[string]*ddb1.AttributeValue{"h": {S: aws.String("k")}}})
	if err != nil {
		return "ERR " + err.Error()
	}
	return canonString(itemFromV1(o.Item))
}

func pokeV1(dir, kind string) (visible bool, note string) {
	cl := c1.NewClient()
	if err := c1.AddTable(cl, "tbl", "h", ""); err != nil {
		return false, err.Error()
	}
	key := map[string]*ddb1.AttributeValue{"h": {S: aws.String("k")}}
	item := map[string]*ddb1.AttributeValue{"h": {S: aws.String("k")}, "a": v1Value(kind)}
	switch dir {
	case "put_input":
		if _, err := cl.PutItem(&ddb1.PutItemInput{TableName: aws.String("tbl"), Item: item}); err != nil {
			return false, err.Error()
		}
		before := v1Snapshot(cl)
		v1Poke(kind, item)
		return before != v1Snapshot(cl), ""
	case "update_values":
		vals := map[string]*ddb1.AttributeValue{":v": v1Value(kind)}
		if _, err := cl.UpdateItem(&ddb1.UpdateItemInput{TableName: aws.String("tbl"), Key: key, UpdateExpression: aws.String("SET a = :v"), ExpressionAttributeValues: vals}); err != nil {
			return false, err.Error()
		}
		before := v1Snapshot(cl)
		v1Poke(kind, map[string]*ddb1.AttributeValue{"a": vals[":v"]})
		return before != v1Snapshot(cl), ""
	}
	if _, err := cl.PutItem(&ddb1.PutItemInput{TableName: aws.String("tbl"), Item: item}); err != nil {
		return false, err.Error()
	}
	// outputs: mutate what a read returned, read again
	var out map[string]*ddb1.AttributeValue
	switch dir {
	case "get_output":
		o, err := cl.GetItem(&ddb1.GetItemInput{TableName: aws.String("tbl"), Key: key})
		if err != nil {
			return false, err.Error()
		}
		out = o.Item
	case "query_output":
		o, err := cl.Query(&ddb1.QueryInput{TableName: aws.String("tbl"), KeyConditionExpression: aws.String("h = :h"), ExpressionAttributeValues: map[string]*ddb1.AttributeValue{":h": {S: aws.String("k")}}})
		if err != nil || len(o.Items) != 1 {
			return false, fmt.Sprint(err)
		}
		out = o.Items[0]
	case "scan_output":
		o, err := cl.Scan(&ddb1.ScanInput{TableName: aws.String("tbl")})
		if err != nil || len(o.Items) != 1 {
			return false, fmt.Sprint(err)
		}
		out = o.Items[0]
	case "update_output":
		o, err := cl.UpdateItem(&ddb1.UpdateItemInput{TableName: aws.String("tbl"), Key: key, UpdateExpression: aws.String("SET z = :z"), ExpressionAttributeValues: map[string]*ddb1.AttributeValue{":z": {S: aws.String("z")}}})
		if err != nil {
			return false, err.Error()
		}
		out = o.Attributes
	case "result_stability":
		// a result already returned must not change when the item is written again
		o, err := cl.GetItem(&ddb1.GetItemInput{TableName: aws.String("tbl"), Key: key})
		if err != nil {
			return false, err.Error()
		}
		s1 := canonString(itemFromV1(o.Item))
		_, _ = cl.UpdateItem(&ddb1.UpdateItemInput{TableName: aws.String("tbl"), Key: key, UpdateExpression: aws.String("SET z = :z REMOVE a"), ExpressionAttributeValues: map[string]*ddb1.AttributeValue{":z": {S: aws.String("z")}}})
		_, _ = cl.PutItem(&ddb1.PutItemInput{TableName: aws.String("tbl"), Item: map[string]*ddb1.AttributeValue{"h": {S: aws.String("k")}, "a": {S: aws.String("other")}}})
		_, _ = cl.DeleteItem(&ddb1.DeleteItemInput{TableName: aws.String("tbl"), Key: key})
		return s1 != canonString(itemFromV1(o.Item)), ""
	}
	before := v1Snapshot(cl)
	v1Poke(kind, out)
	return before != v1Snapshot(cl), ""
}

// ---------- SDK v2 ----------
func v2Value(kind string) t2.AttributeValue {
	switch kind {
	case "S":
		return &t2.AttributeValueMemberS{Value: "orig"}
	case "N":
		return &t2.AttributeValueMemberN{Value: "1"}
	case "B":
		return &t2.AttributeValueMemberB{Value: []byte("orig")}
	case "BOOL":
		return &t2.AttributeValueMemberBOOL{Value: true}
	case "NULL":
		return &t2.AttributeValueMemberNULL{Value: true}
	case "SS":
		return &t2.AttributeValueMemberSS{Value: []string{"a", "b"}}
	case "NS":
		return &t2.AttributeValueMemberNS{Value: []string{"1", "2"}}
	case "BS":
		return &t2.AttributeValueMemberBS{Value: [][]byte{[]byte("ab"), []byte("cd")}}
	case "L", "L.S", "L.B":
		return &t2.AttributeValueMemberL{Value: []t2.AttributeValue{&t2.AttributeValueMemberS{Value: "orig"}, &t2.AttributeValueMemberB{Value: []byte("orig")}}}
	case "M", "M.S", "M.B", "ITEM":
		return &t2.AttributeValueMemberM{Value: map[string]t2.AttributeValue{"s": &t2.AttributeValueMemberS{Value: "orig"}, "b": &t2.AttributeValueMemberB{Value: []byte("orig")}}}
	}
	panic(kind)
}

func v2Poke(kind string, item map[string]t2.AttributeValue) {
	v := item["a"]
	if v == nil {
		return
	}
	defer func() { _ = recover() }()
	switch kind {
	case "S":
		v.(*t2.AttributeValueMemberS).Value = "POKED"
	case "N":
		v.(*t2.AttributeValueMemberN).Value = "99"
	case "B":
		v.(*t2.AttributeValueMemberB).Value[0] = 'X'
	case "BOOL":
		v.(*t2.AttributeValueMemberBOOL).Value = false
	case "NULL":
		v.(*t2.AttributeValueMemberNULL).Value = false
	case "SS":
		v.(*t2.AttributeValueMemberSS).Value[0] = "POKED"
	case "NS":
		v.(*t2.AttributeValueMemberNS).Value[0] = "99"
	case "BS":
		v.(*t2.AttributeValueMemberBS).Value[0][0] = 'X'
	case "L":
		v.(*t2.AttributeValueMemberL).Value[0] = &t2.AttributeValueMemberS{Value: "POKED"}
	case "L.S":
		v.(*t2.AttributeValueMemberL).Value[0].(*t2.AttributeValueMemberS).Value = "POKED"
	case "L.B":
		v.(*t2.AttributeValueMemberL).Value[1].(*t2.AttributeValueMemberB).Value[0] = 'X'
	case "M":
		m := v.(*t2.AttributeValueMemberM).Value
		m["s"] = &t2.AttributeValueMemberS{Value: "POKED"}
		m["new"] = &t2.AttributeValueMemberS{Value: "POKED"}
	case "M.S":
		v.(*t2.AttributeValueMemberM).Value["s"].(*t2.AttributeValueMemberS).Value = "POKED"
	case "M.B":
		v.(*t2.AttributeValueMemberM).Value["b"].(*t2.AttributeValueMemberB).Value[0] = 'X'
	case "ITEM":
		item["a"] = &t2.AttributeValueMemberS{Value: "POKED"}
		item["new"] = &t2.AttributeValueMemberS{Value: "POKED"}
	}
}

func v2Snapshot(cl *c2.Client) string {
	o, err := cl.GetItem(ctx, &ddb2.GetItemInput{TableName: v2aws.String("tbl"), Key: map[string]t2.AttributeValue{"h": &t2.AttributeValueMemberS{Value: "k"}}})
	if err != nil {
		return "ERR " + err.Error()
	}
	return canonString(itemFromV2(o.Item))
}

func pokeV2(dir, kind string) (visible bool, note string) {
	cl := c2.NewClient()
	if err := c2.AddTable(ctx, cl, "tbl", "h", ""); err != nil {
		return false, err.Error()
	}
	key := map[string]t2.AttributeValue{"h": &t2.AttributeValueMemberS{Value: "k"}}
	item := map[string]t2.AttributeValue{"h": &t2.AttributeValueMemberS{Value: "k"}, "a": v2Value(kind)}
	tn := v2aws.String("tbl")
	switch dir {
	case "put_input":
		if _, err := cl.PutItem(ctx, &ddb2.PutItemInput{TableName: tn, Item: item}); err != nil {
			return false, err.Error()
		}
		before := v2Snapshot(cl)
		v2Poke(kind, item)
		return before != v2Snapshot(cl), ""
	case "update_values":
		vals := map[string]t2.AttributeValue{":v": v2Value(kind)}
		if _, err := cl.UpdateItem(ctx, &ddb2.UpdateItemInput{TableName: tn, Key: key, UpdateExpression: v2aws.String("SET a = :v"), ExpressionAttributeValues: vals}); err != nil {
			return false, err.Error()
		}
		before := v2Snapshot(cl)
		v2Poke(kind, map[string]t2.AttributeValue{"a": vals[":v"]})
		return before != v2Snapshot(cl), ""
	}
	if _, err := cl.PutItem(ctx, &ddb2.PutItemInput{TableName: tn, Item: item}); err != nil {
		return false, err.Error()
	}
	var out map[string]t2.AttributeValue
	switch dir {
	case "get_output":
		o, err := cl.GetItem(ctx, &ddb2.GetItemInput{TableName: tn, Key: key})
		if err != nil {
			return false, err.Error()
		}
		out = o.Item
	case "query_output":
		o, err := cl.Query(ctx, &ddb2.QueryInput{TableName: tn, KeyConditionExpression: v2aws.String("h = :h"), ExpressionAttributeValues: map[string]t2.AttributeValue{":h": key["h"]}})
		if err != nil || len(o.Items) != 1 {
			return false, fmt.Sprint(err)
		}
		out = o.Items[0]
	case "scan_output":
		o, err := cl.Scan(ctx, &ddb2.ScanInput{TableName: tn})
		if err != nil || len(o.Items) != 1 {
			return false, fmt.Sprint(err)
		}
		out = o.Items[0]
	case "update_output":
		o, err := cl.UpdateItem(ctx, &ddb2.UpdateItemInput{TableName: tn, Key: key, UpdateExpression: v2aws.String("SET z = :z"), ExpressionAttributeValues: map[string]t2.AttributeValue{":z": &t2.AttributeValueMemberS{Value: "z"}}})
		if err != nil {
			return false, err.Error()
		}
		out = o.Attributes
	case "result_stability":
		o, err := cl.GetItem(ctx, &ddb2.GetItemInput{TableName: tn, Key: key})
		if err != nil {
			return false, err.Error()
		}
		s1 := canonString(itemFromV2(o.Item))
		_, _ = cl.UpdateItem(ctx, &ddb2.UpdateItemInput{TableName: tn, Key: key, UpdateExpression: v2aws.String("SET z = :z REMOVE a"), ExpressionAttributeValues: map[string]t2.AttributeValue{":z": &t2.AttributeValueMemberS{Value: "z"}}})
		_, _ = cl.PutItem(ctx, &ddb2.PutItemInput{TableName: tn, Item: map[string]t2.AttributeValue{"h": key["h"], "a": &t2.AttributeValueMemberS{Value: "other"}}})
		_, _ = cl.DeleteItem(ctx, &ddb2.DeleteItemInput{TableName: tn, Key: key})
		return s1 != canonString(itemFromV2(o.Item)), ""
	}
	before := v2Snapshot(cl)
	v2Poke(kind, out)
	return before != v2Snapshot(cl), ""
}

func canonString(m map[string]interface{}) string {
	ks := []string{}
	for k := range m {
		ks = append(ks, k)
	}
	sort.Strings(ks)
	s := ""
	for _, k := range ks {
		s += fmt.Sprintf("%s=%v;", k, canonValue(m[k]))
	}
	return s
}

func canonValue(v interface{}) interface{} {
	if av, ok := v.(AV); ok {
		out := map[string]interface{}{}
		for k, x := range av {
			out[k] = canonValue(x)
		}
		return fmt.Sprint(sortedMap(out))
	}
	if m, ok := v.(map[string]interface{}); ok {
		return canonString(m)
	}
	if l, ok := v.([]interface{}); ok {
		o := []interface{}{}
		for _, e := range l {
			o = append(o, canonValue(e))
		}
		return o
	}
	return v
}

func sortedMap(m map[string]interface{}) []string {
	ks := []string{}
	for k := range m {
		ks = append(ks, k)
	}
	sort.Strings(ks)
	out := []string{}
	for _, k := range ks {
		out = append(out, fmt.Sprintf("%s:%v", k, m[k]))
	}
	return out
}

var _ = reflect.DeepEqual

func init() {
	unitOps["poke_matrix"] = func(op J) J {
		sdk := op["sdk"].(string)
		res := []interface{}{}
		for _, dir := range []string{"put_input", "update_values", "get_output", "query_output", "scan_output", "update_output", "result_stability"} {
			for _, kind := range pokeKinds {
				var vis bool
				var note string
				func() {
					defer func() {
						if r := recover(); r != nil {
							note = fmt.Sprint("panic: ", r)
						}
					}()
					if sdk == "v1" {
						vis, note = pokeV1(dir, kind)
					} else {
						vis, note = pokeV2(dir, kind)
					}
				}()
				res = append(res, J{"dir": dir, "kind": kind, "visible": vis, "note": note})
			}
		}
		for _, dir := range []string{"cond_failure_put_error", "cond_failure_delete_error"} {
			for _, kind := range pokeKinds {
				var vis bool
				var note string
				func() {
					defer func() {
						if r := recover(); r != nil {
							note = fmt.Sprint("panic: ", r)
						}
					}()
					if sdk == "v1" {
						vis, note = pokeCondV1(kind, dir == "cond_failure_delete_error")
					} else {
						vis, note = pokeCondV2(kind, dir == "cond_failure_delete_error")
					}
				}()
				res = append(res, J{"dir": dir, "kind": kind, "visible": vis, "note": note})
			}
		}
		for _, dir := range pokeKeyDirs {
			for _, kind := range pokeKeyKinds {
				var vis bool
				var note string
				func() {
					defer func() {
						if r := recover(); r != nil {
							note = fmt.Sprint("panic: ", r)
						}
					}()
					if sdk == "v1" {
						vis, note = pokeKeyV1(dir, kind)
					} else {
						vis, note = pokeKeyV2(dir, kind)
					}
				}()
				res = append(res, J{"dir": dir, "kind": kind, "visible": vis, "note": note})
			}
		}
		return J{"r": "ok", "matrix": res}
	}
}
