package main

import (
	"strconv"

	"github.com/truora/minidyn/interpreter"
	"github.com/truora/minidyn/interpreter/language"
)

// unit-level operations: exercised directly on the packages, not through a client
var unitOps = map[string]func(op J) J{
	"lex": func(op J) J {
		l := language.NewLexer(str(op, "text"))
		toks := []interface{}{}
		for i := 0; i < 20000; i++ {
			t := l.NextToken()
			toks = append(toks, []interface{}{string(t.Type), b2l(t.Literal)})
			if t.Type == language.EOF {
				break
			}
		}
		return J{"r": "ok", "tokens": toks}
	},
	"parse": func(op J) J {
		l := language.NewLexer(str(op, "text"))
		safe := func(f func() string) (out interface{}) {
			defer func() {
				if r := recover(); r != nil {
					out = nil
				}
			}()
			return b2l(f())
		}
		if b, _ := op["update"].(bool); b {
			p := language.NewUpdateParser(l)
			st := p.ParseUpdateExpression()
			return J{"r": "ok", "ast": safe(st.String), "errors": len(p.Errors())}
		}
		p := language.NewParser(l)
		st := p.ParseConditionalExpression()
		return J{"r": "ok", "ast": safe(st.String), "errors": len(p.Errors())}
	},
	"match": func(op J) J {
		li := interpreter.Language{}
		ok, err := li.Match(interpreter.MatchInput{TableName: "t", Expression: str(op, "expr"), ExpressionType: interpreter.ExpressionTypeFilter, Item: itemToMT(obj(op, "item")), Attributes: itemToMT(obj(op, "values")), Aliases: names(op)})
		r := J{"r": classify(err, nil)}
		if err == nil {
			r["verdict"] = ok
		}
		return r
	},
	"lang_update": func(op J) J {
		li := interpreter.Language{}
		item := itemToMT(obj(op, "item"))
		if item == nil {
			item = itemToMT(J{})
		}
		err := li.Update(interpreter.UpdateInput{TableName: "t", Expression: str(op, "expr"), Item: item, Attributes: itemToMT(obj(op, "values")), Aliases: names(op)})
		return J{"r": classify(err, nil), "item": itemFromMT(item)}
	},
	"float": func(op J) J {
		f, err := strconv.ParseFloat(str(op, "text"), 64)
		if err != nil {
			return J{"r": "Error"}
		}
		return J{"r": "ok", "text": strconv.FormatFloat(f, 'f', -1, 64)}
	},
}
