package main

import (
	"github.com/aws/aws-sdk-go/aws"
	"github.com/aws/aws-sdk-go/service/dynamodb"
	client "github.com/truora/minidyn/aws-v1/client"
	"github.com/truora/minidyn/interpreter"
	mt "github.com/truora/minidyn/types"
)

type v1Client struct {
	c *client.Client
}

func (c *v1Client) dump() J { return dumpTables(client.VerifTables(c.c)) }

func (s *session) c1(op J) *v1Client {
	id := str(op, "client")
	c, ok := s.v1[id]
	if !ok {
		c = &v1Client{c: client.NewClient()}
		s.v1[id] = c
	}
	return c
}

func v1Names(op J) map[string]*string {
	m := names(op)
	if m == nil {
		return nil
	}
	return aws.StringMap(m)
}

func v1KeySchema(op J) ([]*dynamodb.KeySchemaElement, []*dynamodb.AttributeDefinition) {
	ks := []*dynamodb.KeySchemaElement{}
	defs := []*dynamodb.AttributeDefinition{}
	if h := obj(op, "hash"); h != nil {
		ks = append(ks, &dynamodb.KeySchemaElement{AttributeName: aws.String(str(h, "name")), KeyType: aws.String("HASH")})
		if has(h, "type") {
			defs = append(defs, &dynamodb.AttributeDefinition{AttributeName: aws.String(str(h, "name")), AttributeType: aws.String(str(h, "type"))})
		}
	}
	if r := obj(op, "range"); r != nil {
		ks = append(ks, &dynamodb.KeySchemaElement{AttributeName: aws.String(str(r, "name")), KeyType: aws.String("RANGE")})
		if has(r, "type") {
			defs = append(defs, &dynamodb.AttributeDefinition{AttributeName: aws.String(str(r, "name")), AttributeType: aws.String(str(r, "type"))})
		}
	}
	if b, ok := op["range_first"].(bool); ok && b && len(ks) == 2 {
		// the same schema, listed RANGE element first
		ks[0], ks[1] = ks[1], ks[0]
	}
	return ks, defs
}

func v1Throughput(op J) *dynamodb.ProvisionedThroughput {
	if b, ok := op["throughput"].(bool); ok && b {
		return &dynamodb.ProvisionedThroughput{ReadCapacityUnits: aws.Int64(5), WriteCapacityUnits: aws.Int64(5)}
	}
	return nil
}

func v1Desc(d *dynamodb.TableDescription) J {
	if d == nil {
		return nil
	}
	ks := func(l []*dynamodb.KeySchemaElement) []interface{} {
		out := []interface{}{}
		for _, e := range l {
			out = append(out, J{"name": b2l(aws.StringValue(e.AttributeName)), "type": aws.StringValue(e.KeyType)})
		}
		return out
	}
	g := []interface{}{}
	for _, x := range d.GlobalSecondaryIndexes {
		g = append(g, J{"name": b2l(aws.StringValue(x.IndexName)), "count": aws.Int64Value(x.ItemCount), "schema": ks(x.KeySchema), "proj": v1Proj(x.Projection)})
	}
	l := []interface{}{}
	for _, x := range d.LocalSecondaryIndexes {
		l = append(l, J{"name": b2l(aws.StringValue(x.IndexName)), "count": aws.Int64Value(x.ItemCount), "schema": ks(x.KeySchema), "proj": v1Proj(x.Projection)})
	}
	return J{"name": b2l(aws.StringValue(d.TableName)), "count": aws.Int64Value(d.ItemCount), "schema": ks(d.KeySchema), "gsi": g, "lsi": l}
}

func v1Items(l []map[string]*dynamodb.AttributeValue) []interface{} {
	out := []interface{}{}
	for _, i := range l {
		out = append(out, itemFromV1(i))
	}
	return out
}

func (s *session) runV1(name string, op J) J {
	c := s.c1(op)
	cl := c.c
	forced := client.ErrForcedFailure
	res := func(err error) J { return J{"r": classify(err, forced)} }
	table := aws.String(str(op, "table"))

	switch name {
	case "new_client":
		s.v1[str(op, "client")] = &v1Client{c: client.NewClient()}
		return J{"r": "ok"}
	case "add_table":
		return res(client.AddTable(cl, str(op, "table"), str(op, "hash"), str(op, "range")))
	case "add_index":
		return res(client.AddIndex(cl, str(op, "table"), str(op, "index"), str(op, "hash"), str(op, "range")))
	case "clear_table":
		return res(client.ClearTable(cl, str(op, "table")))
	case "create_table":
		ks, defs := v1KeySchema(op)
		for _, d := range arr(op, "attrs") {
			dd := d.(map[string]interface{})
			defs = append(defs, &dynamodb.AttributeDefinition{AttributeName: aws.String(str(dd, "name")), AttributeType: aws.String(str(dd, "type"))})
		}
		in := &dynamodb.CreateTableInput{TableName: table, KeySchema: ks, AttributeDefinitions: defs, ProvisionedThroughput: v1Throughput(op)}
		if has(op, "billing") && str(op, "billing") != "" {
			in.BillingMode = aws.String(str(op, "billing"))
		}
		for _, g := range arr(op, "gsi") {
			gg := g.(map[string]interface{})
			gks, _ := v1KeySchema(gg)
			in.GlobalSecondaryIndexes = append(in.GlobalSecondaryIndexes, &dynamodb.GlobalSecondaryIndex{IndexName: aws.String(str(gg, "name")), KeySchema: gks, Projection: &dynamodb.Projection{ProjectionType: aws.String("ALL")}, ProvisionedThroughput: v1Throughput(gg)})
		}
		for _, g := range arr(op, "lsi") {
			gg := g.(map[string]interface{})
			gks, _ := v1KeySchema(gg)
			in.LocalSecondaryIndexes = append(in.LocalSecondaryIndexes, &dynamodb.LocalSecondaryIndex{IndexName: aws.String(str(gg, "name")), KeySchema: gks, Projection: &dynamodb.Projection{ProjectionType: aws.String("ALL")}})
		}
		o, err := cl.CreateTable(in)
		r := res(err)
		if o != nil {
			r["desc"] = v1Desc(o.TableDescription)
		}
		return r
	case "delete_table":
		o, err := cl.DeleteTable(&dynamodb.DeleteTableInput{TableName: table})
		r := res(err)
		if o != nil {
			r["desc"] = v1Desc(o.TableDescription)
		}
		return r
	case "describe_table":
		o, err := cl.DescribeTable(&dynamodb.DescribeTableInput{TableName: table})
		r := res(err)
		if o != nil {
			r["desc"] = v1Desc(o.Table)
		}
		return r
	case "update_table":
		in := &dynamodb.UpdateTableInput{TableName: table}
		for _, d := range arr(op, "attrs") {
			dd := d.(map[string]interface{})
			in.AttributeDefinitions = append(in.AttributeDefinitions, &dynamodb.AttributeDefinition{AttributeName: aws.String(str(dd, "name")), AttributeType: aws.String(str(dd, "type"))})
		}
		if g := obj(op, "create"); g != nil {
			gks, _ := v1KeySchema(g)
			in.GlobalSecondaryIndexUpdates = append(in.GlobalSecondaryIndexUpdates, &dynamodb.GlobalSecondaryIndexUpdate{Create: &dynamodb.CreateGlobalSecondaryIndexAction{IndexName: aws.String(str(g, "name")), KeySchema: gks, Projection: &dynamodb.Projection{ProjectionType: aws.String("ALL")}, ProvisionedThroughput: v1Throughput(g)}})
		}
		if has(op, "delete") {
			in.GlobalSecondaryIndexUpdates = append(in.GlobalSecondaryIndexUpdates, &dynamodb.GlobalSecondaryIndexUpdate{Delete: &dynamodb.DeleteGlobalSecondaryIndexAction{IndexName: aws.String(str(op, "delete"))}})
		}
		o, err := cl.UpdateTable(in)
		r := res(err)
		if o != nil {
			r["desc"] = v1Desc(o.TableDescription)
		}
		return r
	case "put":
		pin := &dynamodb.PutItemInput{TableName: table, Item: itemToV1(obj(op, "item")), ConditionExpression: pstr(op, "cond"), ExpressionAttributeNames: v1Names(op), ExpressionAttributeValues: itemToV1(obj(op, "values"))}
		if b, ok := op["return_old"].(bool); ok && b {
			pin.ReturnValues = aws.String("ALL_OLD")
		}
		if has(op, "rv") {
			pin.ReturnValues = aws.String(str(op, "rv")) // any other value: nothing is returned
		}
		o, err := cl.PutItem(pin)
		r := res(err)
		if err == nil && o != nil && o.Attributes != nil {
			r["item"] = itemFromV1(o.Attributes)
		}
		return r
	case "get":
		gin := &dynamodb.GetItemInput{TableName: table, Key: itemToV1(obj(op, "key")), ExpressionAttributeNames: v1Names(op), ProjectionExpression: pstr(op, "projection")}
		if has(op, "atg") {
			gin.AttributesToGet = aws.StringSlice(strs(op["atg"])) // the legacy parameter: ignored by the library
		}
		o, err := cl.GetItem(gin)
		r := res(err)
		if o != nil {
			r["item"] = itemFromV1(o.Item)
			r["item_nil"] = o.Item == nil
		}
		return r
	case "update":
		in := &dynamodb.UpdateItemInput{TableName: table, Key: itemToV1(obj(op, "key")), UpdateExpression: aws.String(str(op, "expr")), ConditionExpression: pstr(op, "cond"), ExpressionAttributeNames: v1Names(op), ExpressionAttributeValues: itemToV1(obj(op, "values"))}
		o, err := cl.UpdateItem(in)
		r := res(err)
		if o != nil {
			r["item"] = itemFromV1(o.Attributes)
		}
		return r
	case "delete":
		in := &dynamodb.DeleteItemInput{TableName: table, Key: itemToV1(obj(op, "key")), ConditionExpression: pstr(op, "cond"), ExpressionAttributeNames: v1Names(op), ExpressionAttributeValues: itemToV1(obj(op, "values"))}
		if b, ok := op["return_old"].(bool); ok && b {
			in.ReturnValues = aws.String("ALL_OLD")
		}
		if has(op, "rv") {
			in.ReturnValues = aws.String(str(op, "rv")) // any other value: nothing is returned
		}
		o, err := cl.DeleteItem(in)
		r := res(err)
		if o != nil && o.Attributes != nil {
			r["item"] = itemFromV1(o.Attributes)
		}
		return r
	case "query":
		in := &dynamodb.QueryInput{TableName: table, KeyConditionExpression: pstr(op, "keycond"), FilterExpression: pstr(op, "filter"), ExpressionAttributeNames: v1Names(op), ExpressionAttributeValues: itemToV1(obj(op, "values")), ExclusiveStartKey: itemToV1(obj(op, "esk")), ProjectionExpression: pstr(op, "projection")}
		if has(op, "index") {
			in.IndexName = aws.String(str(op, "index"))
		}
		if has(op, "limit") {
			in.Limit = aws.Int64(int64(op["limit"].(float64)))
		}
		if has(op, "forward") {
			in.ScanIndexForward = aws.Bool(op["forward"].(bool))
		}
		o, err := cl.Query(in)
		r := res(err)
		if o != nil {
			r["items"] = v1Items(o.Items)
			r["count"] = aws.Int64Value(o.Count)
			r["lek"] = itemFromV1(o.LastEvaluatedKey)
			r["lek_nil"] = o.LastEvaluatedKey == nil
		}
		return r
	case "scan":
		in := &dynamodb.ScanInput{TableName: table, FilterExpression: pstr(op, "filter"), ExpressionAttributeNames: v1Names(op), ExpressionAttributeValues: itemToV1(obj(op, "values")), ExclusiveStartKey: itemToV1(obj(op, "esk")), ProjectionExpression: pstr(op, "projection")}
		if has(op, "index") {
			in.IndexName = aws.String(str(op, "index"))
		}
		if has(op, "limit") {
			in.Limit = aws.Int64(int64(op["limit"].(float64)))
		}
		o, err := cl.Scan(in)
		r := res(err)
		if o != nil {
			r["items"] = v1Items(o.Items)
			r["count"] = aws.Int64Value(o.Count)
			r["lek"] = itemFromV1(o.LastEvaluatedKey)
			r["lek_nil"] = o.LastEvaluatedKey == nil
		}
		return r
	case "batch_write":
		in := &dynamodb.BatchWriteItemInput{RequestItems: map[string][]*dynamodb.WriteRequest{}}
		for t, reqs := range obj(op, "requests") {
			l := []*dynamodb.WriteRequest{}
			for _, rq := range reqs.([]interface{}) {
				r := rq.(map[string]interface{})
				wr := &dynamodb.WriteRequest{}
				if has(r, "put") {
					wr.PutRequest = &dynamodb.PutRequest{Item: itemToV1(obj(r, "put"))}
				}
				if has(r, "delete") {
					wr.DeleteRequest = &dynamodb.DeleteRequest{Key: itemToV1(obj(r, "delete"))}
				}
				l = append(l, wr)
			}
			in.RequestItems[l2b(t)] = l
		}
		o, err := cl.BatchWriteItem(in)
		r := res(err)
		if o != nil && err == nil {
			un := J{}
			for t, reqs := range o.UnprocessedItems {
				l := []interface{}{}
				for _, wr := range reqs {
					e := J{}
					if wr.PutRequest != nil {
						e["put"] = itemFromV1(wr.PutRequest.Item)
					}
					if wr.DeleteRequest != nil {
						e["delete"] = itemFromV1(wr.DeleteRequest.Key)
					}
					l = append(l, e)
				}
				un[b2l(t)] = l
			}
			r["unproc"] = un
		}
		return r
	case "batch_get":
		in := &dynamodb.BatchGetItemInput{RequestItems: map[string]*dynamodb.KeysAndAttributes{}}
		for t, keys := range obj(op, "requests") {
			ka := &dynamodb.KeysAndAttributes{}
			for _, k := range keys.([]interface{}) {
				ka.Keys = append(ka.Keys, itemToV1(k.(map[string]interface{})))
			}
			in.RequestItems[l2b(t)] = ka
		}
		o, err := cl.BatchGetItem(in)
		r := res(err)
		if o != nil {
			resp := J{}
			for t, items := range o.Responses {
				resp[b2l(t)] = v1Items(items)
			}
			un := J{}
			for t, ka := range o.UnprocessedKeys {
				un[b2l(t)] = v1Items(ka.Keys)
			}
			r["resp"] = resp
			r["unproc"] = un
		}
		return r
	case "transact":
		_, err := cl.TransactWriteItems(&dynamodb.TransactWriteItemsInput{})
		return res(err)
	case "emulate_failure":
		client.EmulateFailure(cl, client.FailureCondition(str(op, "cond")))
		return J{"r": "ok"}
	case "activate_force_failure":
		client.ActiveForceFailure(cl)
		return J{"r": "ok"}
	case "deactivate_force_failure":
		client.DeactiveForceFailure(cl)
		return J{"r": "ok"}
	case "activate_native":
		cl.ActivateNativeInterpreter()
		return J{"r": "ok"}
	case "set_interpreter":
		cl.SetInterpreter(interpreter.NewNativeInterpreter())
		return J{"r": "ok"}
	case "add_matcher":
		id, verdict := op["id"], op["verdict"].(bool)
		cl.GetNativeInterpreter().AddMatcher(str(op, "table"), interpreter.ExpressionType(str(op, "kind")), str(op, "expr"), func(item, attrs map[string]*mt.Item) bool {
			s.fired = append(s.fired, id)
			return verdict
		})
		return J{"r": "ok"}
	case "add_updater":
		id, set := op["id"], itemToMT(obj(op, "set"))
		cl.GetNativeInterpreter().AddUpdater(str(op, "table"), str(op, "expr"), func(item, attrs map[string]*mt.Item) {
			s.fired = append(s.fired, id)
			for k, v := range set {
				if k != "@poke" && k != "@pokes" && k != "@drop" {
					item[k] = v
				}
			}
			if _, poke := set["@pokes"]; poke {
				// an in-place write through the pointer of a scalar attribute
				if x := item["x"]; x != nil {
					if x.S != nil {
						*x.S = *x.S + "!"
					} else if x.N != nil {
						*x.N = "777"
					}
				}
			}
			if _, poke := set["@poke"]; poke {
				// an in-place write into every top-level map attribute of the item the updater was handed
				for _, v := range item {
					if v != nil && v.M != nil {
						v.M["poked"] = &mt.Item{S: sp("p")}
					}
					if v != nil {
						// ... and into every map that is an element of a top-level list attribute
						for _, e := range v.L {
							if e != nil && e.M != nil {
								e.M["poked"] = &mt.Item{S: sp("p")}
							}
						}
					}
				}
			}
			if d := set["@drop"]; d != nil && d.S != nil {
				// the updater deletes an attribute
				delete(item, *d.S)
			}
		})
		return J{"r": "ok"}
	}
	return J{"r": "BadOp"}
}

// the projection type of an index description ("" when the description carries none)
func v1Proj(p *dynamodb.Projection) string {
	if p == nil {
		return ""
	}
	return aws.StringValue(p.ProjectionType)
}
