#!/bin/sh
# after an intentional change of the translator or of the generated tables: refresh the reference copy
cd "$(dirname "$0")/.." && cp coq/theories/Gen/Tables.v coq/ref/Tables.v && echo "reference tables updated"
