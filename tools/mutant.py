#!/usr/bin/env python3
"""tools/mutant.py <id> <prop> <patch.diff> <demo_test.go> <demo-dir> <run-pattern> [check props...]
Confirms a seeded change (suite passes with it, demo fails with it and passes without it) in a scratch worktree,
then applies it to /repo, runs the given checks and reverts /repo. Records everything under /verif/seeded/<id>/."""
import sys, os, subprocess, json, shutil, re, time
ENV = dict(os.environ, GOFLAGS='-mod=mod', GOPROXY='off', GOSUMDB='off', GOTOOLCHAIN='local')

def sh(cmd, cwd=None, timeout=1800):
    p = subprocess.run(cmd, cwd=cwd, env=ENV, shell=isinstance(cmd, str), stdout=subprocess.PIPE, stderr=subprocess.STDOUT, text=True, errors="replace", timeout=timeout)
    return p.returncode, p.stdout

def main():
    mid, prop, patch, demo, demodir, pattern = sys.argv[1:7]
    race = ''
    if pattern.startswith('-race'):
        race, pattern = '-race ', pattern[len('-race'):].strip()
        ENV.pop('CGO_ENABLED', None)
    checks = sys.argv[7:] or [prop]
    out = '/verif/seeded/%s' % mid
    os.makedirs(out, exist_ok=True)
    shutil.copy(patch, out + '/patch.diff')
    shutil.copy(demo, out + '/demo_test.go')
    wt = '/tmp/mv-%s' % mid
    sh('git -C /repo worktree remove --force %s' % wt)
    rc, log = sh('git -C /repo worktree add %s HEAD' % wt)
    meta = dict(id=mid, property=prop, demo_dir=demodir, demo_run=pattern, confirmed={}, checks={})
    try:
        demo_dst = os.path.join(wt, demodir, 'zz_demo_%s_test.go' % re.sub(r'\W', '_', mid))
        shutil.copy(demo, demo_dst)
        rc, log = sh('go test %s-count=1 -run %s ./%s/' % (race, pattern, demodir), cwd=wt)
        meta['confirmed']['demo_passes_without_change'] = (rc == 0)
        os.remove(demo_dst)
        rc, log = sh('git apply %s' % os.path.abspath(patch), cwd=wt)
        assert rc == 0, 'patch does not apply: ' + log
        rc, log = sh('go build ./... && go test -count=1 ./...', cwd=wt)
        meta['confirmed']['suite_passes_with_change'] = (rc == 0)
        if rc: meta['confirmed']['suite_log'] = log[-1500:]
        shutil.copy(demo, demo_dst)
        rc, log = sh('go test %s-count=1 -run %s ./%s/' % (race, pattern, demodir), cwd=wt)
        meta['confirmed']['demo_fails_with_change'] = (rc != 0)
    finally:
        sh('git -C /repo worktree remove --force %s' % wt)
    # now against the checks
    rc, log = sh('git -C /repo status --porcelain')
    assert log.strip() == '', '/repo not clean'
    rc, log = sh('git -C /repo apply %s' % os.path.abspath(patch))
    assert rc == 0, log
    try:
        for c in checks:
            t0 = time.time()
            rc, log = sh(['/verif/check', c, '--tier', 'quick'], cwd='/verif', timeout=3600)
            lines = [l for l in log.split('\n') if l.startswith('VIOLATION') or l.startswith('KNOWN-FINDING') or re.match(r'C\d\d quick', l)]
            meta['checks'][c] = dict(exit=rc, seconds=round(time.time() - t0, 1), lines=lines[:8])
            print(c, 'exit', rc, [l for l in lines if l.startswith('VIOLATION')][:3])
    finally:
        sh('git -C /repo checkout -- .')
        sh('git -C /repo clean -fd')
    json.dump(meta, open(out + '/meta.json', 'w'), indent=1)
    print(json.dumps(meta['confirmed']))

if __name__ == '__main__':
    main()
