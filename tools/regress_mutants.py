#!/usr/bin/env python3
"""tools/regress_mutants.py [ids...]
Re-runs the recorded seeded changes (seeded/<id>/patch.diff) that still apply to the repository under test against the
quick check of their property, one after the other, and prints which are (still) detected. The repository is
$VERIF_REPO (default /repo); every patch is reverted straight after its check."""
import sys, os, subprocess, glob, json
ROOT = os.path.dirname(os.path.dirname(os.path.abspath(__file__)))
REPO = os.environ.get('VERIF_REPO') or os.environ.get('VP_RUN_REPO') or '/repo'

def sh(cmd, **kw):
    p = subprocess.run(cmd, shell=True, stdout=subprocess.PIPE, stderr=subprocess.STDOUT, text=True, **kw)
    return p.returncode, p.stdout

def main():
    ids = sys.argv[1:] or sorted(os.path.basename(d) for d in glob.glob(os.path.join(ROOT, 'seeded', 'C??-*')) if os.path.isdir(d))
    env = dict(os.environ, VERIF_REPO=REPO)
    res = {}
    for mid in ids:
        patch = os.path.join(ROOT, 'seeded', mid, 'patch.diff')
        if not os.path.exists(patch):
            continue
        if sh('git -C %s apply --check %s' % (REPO, patch))[0]:
            res[mid] = 'does-not-apply'
            continue
        assert sh('git -C %s status --porcelain' % REPO)[1].strip() == '', 'repository not clean'
        sh('git -C %s apply %s' % (REPO, patch))
        try:
            rc, log = sh('./check %s --tier quick' % mid[:3], cwd=ROOT, env=env, timeout=3600)
            v = [l for l in log.split('\n') if l.startswith('VIOLATION')]
            res[mid] = 'detected' if rc == 1 and v else 'MISSED (exit %d)' % rc
            if v and all(l.endswith('no-failing-input-found') for l in v):
                res[mid] = 'detected (no-failing-input-found)'
        finally:
            sh('git -C %s checkout -- . && git -C %s clean -fdq' % (REPO, REPO))
        print(mid, res[mid], flush=True)
    json.dump(res, open(os.path.join(ROOT, 'seeded', 'regression-result.json'), 'w'), indent=1)
    print('detected %d, missed %d, not applicable any more %d' % (sum(1 for v in res.values() if v.startswith('detected')),
          sum(1 for v in res.values() if v.startswith('MISSED')), sum(1 for v in res.values() if v == 'does-not-apply')))

if __name__ == '__main__':
    main()
